//! Generators for the digest monitor (C13): the harness's own `Read`
//! implementation that realises a *read schedule* (where reads are cut, where
//! `Interrupted` or a hard error is injected), the schedule builders, and the
//! algorithm-name variants.

use crate::rng::Rng;
use std::io::{self, Read};

// ---------------------------------------------------------------------------
// The scheduled reader
// ---------------------------------------------------------------------------

#[derive(Clone, Copy, Debug, PartialEq, Eq)]
pub enum Step {
    /// Serve data, never reading across this absolute offset.
    Upto(usize),
    /// The next read returns `ErrorKind::Interrupted`.
    Intr,
    /// The next `n` reads in a row return `ErrorKind::Interrupted`.
    IntrN(usize),
    /// The next read returns a hard error (`ErrorKind::Other`).
    Fail,
}

#[derive(Clone, Debug)]
pub struct Schedule {
    /// Evidence family: whole, byte1, short, marker, newline, intr, fault.
    pub family: &'static str,
    /// Placement tag for the evidence matrix (interrupt kind), else "".
    pub tag: &'static str,
    /// Human-readable detail for failure messages.
    pub label: String,
    /// Upper bound on the bytes returned by one read.
    pub cap: usize,
    pub steps: Vec<Step>,
}

impl Schedule {
    pub fn new(family: &'static str, label: impl Into<String>) -> Schedule {
        Schedule { family, tag: "", label: label.into(), cap: usize::MAX, steps: vec![] }
    }
    pub fn reader<'a>(&'a self, data: &'a [u8]) -> SchedReader<'a> {
        SchedReader {
            data,
            pos: 0,
            steps: &self.steps,
            i: 0,
            cap: self.cap,
            rep: 0,
            reads: 0,
            eof_reads: 0,
            intr_served: 0,
            fail_served: 0,
        }
    }
    /// Length of the longest run of consecutive `Interrupted` in the script.
    pub fn burst_len(&self) -> Option<usize> {
        self.steps.iter().filter_map(|s| if let Step::IntrN(n) = s { Some(*n) } else { None }).max()
    }
    pub fn describe(&self) -> String {
        format!("{} [{}]", self.family, self.label)
    }
}

/// A reader over `data` that follows a script.  After the script is
/// exhausted the rest of the data is served (bounded by `cap` and the
/// caller's buffer) and then end-of-file is signalled for ever.  A hard error
/// is *not* sticky: a caller that wrongly carries on reading gets the rest of
/// the data, so that "hashed past the error" shows up as an `Ok` result
/// instead of as a stall.
pub struct SchedReader<'a> {
    data: &'a [u8],
    pos: usize,
    steps: &'a [Step],
    i: usize,
    cap: usize,
    /// Interrupts already served of the current `IntrN` step.
    rep: usize,
    pub reads: u64,
    pub eof_reads: u64,
    pub intr_served: u64,
    pub fail_served: u64,
}

impl SchedReader<'_> {
    fn serve(&mut self, buf: &mut [u8], limit: usize) -> usize {
        let n = buf.len().min(limit - self.pos).min(self.cap);
        buf[..n].copy_from_slice(&self.data[self.pos..self.pos + n]);
        self.pos += n;
        n
    }
    pub fn script_done(&self) -> bool {
        self.i >= self.steps.len()
    }
    pub fn consumed(&self) -> usize {
        self.pos
    }
}

impl Read for SchedReader<'_> {
    fn read(&mut self, buf: &mut [u8]) -> io::Result<usize> {
        self.reads += 1;
        if buf.is_empty() {
            return Ok(0);
        }
        loop {
            match self.steps.get(self.i) {
                Some(Step::Intr) => {
                    self.i += 1;
                    self.intr_served += 1;
                    return Err(io::Error::new(io::ErrorKind::Interrupted, "pvh: injected EINTR"));
                }
                Some(Step::IntrN(n)) => {
                    if self.rep < *n {
                        self.rep += 1;
                        self.intr_served += 1;
                        // The three ways std can carry the kind: a bare kind,
                        // the OS error EINTR, a custom error.  None allocates
                        // except the last, used once in a while.
                        return Err(match self.rep % 16 {
                            1 => io::Error::new(io::ErrorKind::Interrupted, "pvh: injected EINTR"),
                            #[cfg(target_os = "linux")]
                            2 | 7 => io::Error::from_raw_os_error(4),
                            _ => io::Error::from(io::ErrorKind::Interrupted),
                        });
                    }
                    self.rep = 0;
                    self.i += 1;
                    continue;
                }
                Some(Step::Fail) => {
                    self.i += 1;
                    self.fail_served += 1;
                    // every kind but Interrupted is a hard error
                    const KINDS: [io::ErrorKind; 8] = [
                        io::ErrorKind::Other,
                        io::ErrorKind::UnexpectedEof,
                        io::ErrorKind::BrokenPipe,
                        io::ErrorKind::TimedOut,
                        io::ErrorKind::InvalidData,
                        io::ErrorKind::ConnectionReset,
                        io::ErrorKind::WouldBlock,
                        io::ErrorKind::PermissionDenied,
                    ];
                    return Err(io::Error::new(KINDS[(self.pos + self.data.len()) % KINDS.len()], "pvh: injected hard read error"));
                }
                Some(Step::Upto(p)) => {
                    let p = (*p).min(self.data.len());
                    if self.pos >= p {
                        self.i += 1;
                        continue;
                    }
                    let n = self.serve(buf, p);
                    if self.pos >= p {
                        self.i += 1;
                    }
                    return Ok(n);
                }
                None => {
                    if self.pos < self.data.len() {
                        let end = self.data.len();
                        return Ok(self.serve(buf, end));
                    }
                    self.eof_reads += 1;
                    return Ok(0);
                }
            }
        }
    }
}

// ---------------------------------------------------------------------------
// Schedule builders.  All of them depend only on the input bytes and the rng.
// ---------------------------------------------------------------------------

fn cuts_to_steps(cuts: &[usize]) -> Vec<Step> {
    cuts.iter().map(|&c| Step::Upto(c)).collect()
}

pub fn whole() -> Schedule {
    Schedule::new("whole", "as much as the caller's buffer takes")
}

pub fn byte1() -> Schedule {
    let mut s = Schedule::new("byte1", "1-byte reads");
    s.cap = 1;
    s
}

/// Reads of at most `cap` bytes each (the caller's buffer may make them
/// smaller): fixed-size reads at round and odd sizes.
pub const READ_CAPS: [usize; 12] = [2, 3, 7, 64, 100, 255, 1024, 4096, 8191, 16384, 65536, 131072];

pub fn capped(cap: usize) -> Schedule {
    let mut s = Schedule::new("short", format!("every read returns at most {cap} bytes"));
    s.cap = cap;
    s
}

/// Cuts at every multiple of `block` (reads never cross a block boundary).
pub fn blocks(len: usize, block: usize) -> Schedule {
    let cuts: Vec<usize> = (1..).map(|i| i * block).take_while(|&c| c < len).collect();
    let mut s = Schedule::new("short", format!("reads end at every multiple of {block}, {} cuts", cuts.len()));
    s.steps = cuts_to_steps(&cuts);
    s
}

/// Sorted, de-duplicated cut offsets strictly inside 0..len with random gaps
/// of 1..=maxgap.
pub fn random_cuts(r: &mut Rng, len: usize, maxgap: usize) -> Vec<usize> {
    let mut cuts = vec![];
    let mut p = 0usize;
    loop {
        p += r.range(1, maxgap.max(1));
        if p >= len {
            break;
        }
        cuts.push(p);
    }
    cuts
}

pub fn short(r: &mut Rng, len: usize, maxgap: usize) -> Schedule {
    let cuts = random_cuts(r, len, maxgap);
    let mut s = Schedule::new("short", format!("random short reads, gaps 1..={maxgap}, {} cuts", cuts.len()));
    s.steps = cuts_to_steps(&cuts);
    s
}

/// Cut every marker occurrence `off` bytes after its start (1..=6), or at all
/// six inner offsets when `off` is 0.
pub fn marker(markers: &[usize], off: usize) -> Schedule {
    let mut cuts: Vec<usize> = vec![];
    for &m in markers {
        if off == 0 {
            cuts.extend((1..=6).map(|k| m + k));
        } else {
            cuts.push(m + off);
        }
    }
    cuts.sort_unstable();
    cuts.dedup();
    let what = if off == 0 { "every inner offset".to_string() } else { format!("split {off}|{}", 7 - off) };
    let mut s = Schedule::new("marker", format!("cut inside each of {} '$NetBSD': {what}", markers.len()));
    s.steps = cuts_to_steps(&cuts);
    s
}

/// Cuts on the newlines: mode 0 = just before each LF, 1 = just after, 2 = both.
pub fn newline(newlines: &[usize], mode: usize) -> Schedule {
    let mut cuts: Vec<usize> = vec![];
    for &n in newlines {
        if mode == 0 || mode == 2 {
            cuts.push(n);
        }
        if mode == 1 || mode == 2 {
            cuts.push(n + 1);
        }
    }
    cuts.retain(|&c| c > 0);
    cuts.sort_unstable();
    cuts.dedup();
    let what = ["before", "after", "before and after"][mode];
    let mut s = Schedule::new("newline", format!("cut {what} each of {} LF", newlines.len()));
    s.steps = cuts_to_steps(&cuts);
    s
}

/// Cuts used by the interrupt / fault workloads: inside markers and on
/// newlines when there are any (bounded), otherwise random.
pub fn interesting_cuts(
    r: &mut Rng,
    len: usize,
    markers: &[usize],
    newlines: &[usize],
    max: usize,
) -> Vec<usize> {
    let mut pool: Vec<usize> = vec![];
    for &m in markers {
        pool.push(m + r.range(1, 6));
    }
    for &n in newlines {
        pool.push(if r.chance(1, 2) { n } else { n + 1 });
    }
    for c in random_cuts(r, len, (len / 3).max(1)) {
        pool.push(c);
    }
    pool.retain(|&c| c > 0 && c < len);
    r.shuffle(&mut pool);
    pool.truncate(max);
    pool.sort_unstable();
    pool.dedup();
    pool
}

/// `Interrupted` placements.  kind: 0 before any data, 1 between the data
/// reads, 2 after all data but before EOF is signalled, 3 everywhere and
/// repeated.
pub const INTR_KINDS: [&str; 4] = ["before", "between", "after", "many"];
const INTR_TEXT: [&str; 4] = [
    "before any data",
    "between the data reads",
    "after all data, before EOF",
    "repeatedly before, between and after the data reads",
];

pub fn interrupted(kind: usize, cuts: &[usize], len: usize) -> Schedule {
    let mut steps = vec![];
    match kind {
        0 => {
            steps.push(Step::Intr);
            steps.extend(cuts_to_steps(cuts));
        }
        1 => {
            for &c in cuts {
                steps.push(Step::Upto(c));
                steps.push(Step::Intr);
            }
        }
        2 => {
            steps.extend(cuts_to_steps(cuts));
            steps.push(Step::Upto(len));
            steps.push(Step::Intr);
        }
        _ => {
            steps.extend([Step::Intr; 3]);
            for &c in cuts {
                steps.push(Step::Upto(c));
                steps.extend([Step::Intr; 2]);
            }
            steps.push(Step::Upto(len));
            steps.extend([Step::Intr; 3]);
        }
    }
    let mut s = Schedule::new("intr", format!("Interrupted {}, cuts at {:?}", INTR_TEXT[kind.min(3)], short_list(cuts)));
    s.steps = steps;
    s.tag = INTR_KINDS[kind.min(3)];
    s
}

/// `Interrupted` before every single read, with 1-byte reads: as many
/// interrupts as bytes (+1 before EOF), never two in a row.
pub fn interrupted_each_read(len: usize) -> Schedule {
    let mut steps = Vec::with_capacity(2 * len + 1);
    for i in 0..len {
        steps.push(Step::Intr);
        steps.push(Step::Upto(i + 1));
    }
    steps.push(Step::Intr);
    let mut s = Schedule::new("intr", format!("Interrupted before each of {len} 1-byte reads and before EOF"));
    s.cap = 1;
    s.steps = steps;
    s.tag = "each-read";
    s
}

/// Lengths of the bursts of consecutive `Interrupted` (a caller must retry
/// every one of them): small counts, round numbers and their neighbours.
pub const BURSTS: [usize; 34] = [
    2, 3, 4, 5, 8, 10, 16, 20, 32, 50, 63, 64, 65, 100, 127, 128, 129, 255, 256, 257, 500, 1000, 1023,
    1024, 1025, 4095, 4096, 4097, 5000, 10_000, 32_768, 65_535, 65_536, 65_537,
];
pub const MINI_BURSTS: [usize; 8] = [2, 16, 63, 64, 65, 100, 257, 1000];
pub const BURST_KINDS: [&str; 3] = ["burst-before", "burst-between", "burst-before-eof"];

/// A burst of `n` consecutive `Interrupted`: kind 0 before the first data
/// read, 1 between two data reads (after the cut `cuts[which]`, or after the
/// first byte when there is no cut), 2 after all data, before EOF.
pub fn burst(kind: usize, n: usize, which: usize, cuts: &[usize], len: usize) -> Schedule {
    let mut steps = vec![];
    let place;
    match kind {
        0 => {
            steps.push(Step::IntrN(n));
            steps.extend(cuts_to_steps(cuts));
            place = "before the first data read".to_string();
        }
        1 => {
            let at = if cuts.is_empty() { 1.min(len) } else { cuts[which % cuts.len()] };
            for &c in cuts.iter().filter(|&&c| c < at) {
                steps.push(Step::Upto(c));
            }
            steps.push(Step::Upto(at));
            steps.push(Step::IntrN(n));
            for &c in cuts.iter().filter(|&&c| c > at) {
                steps.push(Step::Upto(c));
            }
            place = format!("between the data reads, after byte {at}");
        }
        _ => {
            steps.extend(cuts_to_steps(cuts));
            steps.push(Step::Upto(len));
            steps.push(Step::IntrN(n));
            place = "after all data, before EOF".to_string();
        }
    }
    let mut s = Schedule::new(
        "intr",
        format!("{n} consecutive Interrupted {place}, cuts at {:?}", short_list(cuts)),
    );
    s.steps = steps;
    s.tag = BURST_KINDS[kind.min(2)];
    s
}

/// A hard error after `k` of the chunks delimited by `cuts` (k = 0: before
/// any data; k = cuts.len()+1: after all data, before EOF is signalled).
pub fn fault(k: usize, cuts: &[usize], len: usize) -> Schedule {
    let mut bounds: Vec<usize> = cuts.to_vec();
    bounds.push(len);
    let mut steps = vec![];
    for &b in bounds.iter().take(k) {
        steps.push(Step::Upto(b));
    }
    steps.push(Step::Fail);
    for &b in bounds.iter().skip(k) {
        steps.push(Step::Upto(b));
    }
    let mut s = Schedule::new(
        "fault",
        format!("hard error after chunk {k} of {} (chunk ends {:?})", bounds.len(), short_list(&bounds)),
    );
    s.steps = steps;
    s
}

/// Placement class of `fault(k, cuts, len)` for the evidence matrix.
pub fn fault_class(k: usize, cuts: &[usize], len: usize) -> &'static str {
    if len == 0 {
        "empty-input"
    } else if k == 0 {
        "first"
    } else if k == cuts.len() + 1 {
        "after-data"
    } else {
        "middle"
    }
}

fn short_list(v: &[usize]) -> Vec<usize> {
    v.iter().copied().take(12).collect()
}

// ---------------------------------------------------------------------------
// Algorithm names
// ---------------------------------------------------------------------------

/// Every ASCII letter-case variant of `name` (2^letters strings).
pub fn case_variants(name: &str) -> Vec<String> {
    let letters: Vec<usize> =
        name.bytes().enumerate().filter(|(_, b)| b.is_ascii_alphabetic()).map(|(i, _)| i).collect();
    let mut out = Vec::with_capacity(1 << letters.len());
    for mask in 0u32..(1u32 << letters.len()) {
        let mut b = name.as_bytes().to_vec();
        for (bit, &i) in letters.iter().enumerate() {
            b[i] = if mask >> bit & 1 == 1 { b[i].to_ascii_uppercase() } else { b[i].to_ascii_lowercase() };
        }
        out.push(String::from_utf8(b).expect("harness: ASCII stays ASCII"));
    }
    out
}

/// Strings that are not one of the six names under any reading of
/// "case-insensitively" (ASCII only; non-ASCII folding is excluded, DESIGN 4).
pub const NOT_NAMES: [&str; 16] = [
    "SHA-1", "SHA", "MD55", "", " sha1", "sha1 ", "sha 1", "blake2", "moo", "md", "sha2566", "xsha1",
    "sha1\n", "\tmd5", "rmd16", "BLAKE2s,MD5",
];

/// Near misses of the six names at the byte level, none of which is a name
/// under any reading: every single-bit flip of every byte of the name (in its
/// canonical, lower- and upper-case spelling) that does not merely change the
/// case of a letter - among them the control bytes 0x10-0x19 that `c | 0x20`
/// folds onto the digits - and the name with one character replaced by a
/// multi-byte one and cut back to the name's own length in bytes (what a
/// length pre-check in bytes followed by a character-wise comparison lets
/// through).
pub fn near_names() -> Vec<String> {
    let mut out: Vec<String> = vec![];
    for canon in ["BLAKE2s", "MD5", "RMD160", "SHA1", "SHA256", "SHA512"] {
        for name in [canon.to_string(), canon.to_ascii_lowercase(), canon.to_ascii_uppercase()] {
            let b = name.as_bytes();
            for i in 0..b.len() {
                for bit in 0..8 {
                    let c = b[i] ^ (1 << bit);
                    if c >= 0x80 || c.eq_ignore_ascii_case(&b[i]) {
                        continue;
                    }
                    let mut v = b.to_vec();
                    v[i] = c;
                    if let Ok(t) = String::from_utf8(v) {
                        out.push(t);
                    }
                }
            }
            let chars: Vec<char> = name.chars().collect();
            for i in 0..chars.len() {
                for x in ['\u{e9}', '\u{20ac}', '\u{1f600}', '\u{212a}', '\u{17f}', '\u{130}'] {
                    let mut t = String::new();
                    for (k, c) in chars.iter().enumerate() {
                        let c = if k == i { x } else { *c };
                        if t.len() + c.len_utf8() > name.len() {
                            break;
                        }
                        t.push(c);
                    }
                    if t.len() == name.len() && t != name {
                        out.push(t);
                    }
                }
            }
        }
    }
    out.sort();
    out.dedup();
    out
}
