//! Generators for the digest monitors.
