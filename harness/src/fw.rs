//! Monitor framework: case accounting, panic capture, step budget, watchdog,
//! evidence counters and the per-shard result file.
//!
//! A monitor is a function `fn run(cx: &mut Cx)`.  It generates cases from
//! `cx.rng` (generation never depends on what the library returns) and wraps
//! every observation of the library in `cx.check(desc, body)`.  `check`
//! numbers the case, publishes the number (so that an abort, budget overrun or
//! stall can be attributed), runs the body under `catch_unwind`, and records
//! the outcome.  In replay mode only the case with the requested number has
//! its body executed, everything else is regenerated and skipped.

use crate::json::J;
use crate::rng::Rng;
use std::alloc::{GlobalAlloc, Layout, System};
use std::collections::{BTreeMap, HashSet};
use std::panic::{self, AssertUnwindSafe};
use std::sync::atomic::{AtomicBool, AtomicU64, Ordering::Relaxed};
use std::time::Instant;

// ---------------------------------------------------------------------------
// Counting allocator = deterministic, load-independent step proxy.
// ---------------------------------------------------------------------------

pub struct CountingAlloc;

static ALLOCS: AtomicU64 = AtomicU64::new(0);
static BYTES: AtomicU64 = AtomicU64::new(0);
static ALLOC_LIMIT: AtomicU64 = AtomicU64::new(u64::MAX);
static BYTES_LIMIT: AtomicU64 = AtomicU64::new(u64::MAX);
static IN_CASE: AtomicBool = AtomicBool::new(false);
pub static CUR_IDX: AtomicU64 = AtomicU64::new(0);
pub static PROGRESS: AtomicU64 = AtomicU64::new(0);

/// Arm the step budget for the rest of the process (deep-probe children):
/// `allocs` allocations / `bytes` bytes from now on.
pub fn arm_budget(allocs: u64, bytes: u64) {
    ALLOC_LIMIT.store(ALLOCS.load(Relaxed).saturating_add(allocs), Relaxed);
    BYTES_LIMIT.store(BYTES.load(Relaxed).saturating_add(bytes), Relaxed);
    IN_CASE.store(true, Relaxed);
}

pub fn disarm_budget() {
    IN_CASE.store(false, Relaxed);
}

/// Allocation calls made so far by this process (monotonic).
pub fn allocs_now() -> u64 {
    ALLOCS.load(Relaxed)
}

/// Bytes requested so far by this process (monotonic).
pub fn bytes_now() -> u64 {
    BYTES.load(Relaxed)
}

fn raw_num(buf: &mut [u8; 24], mut n: u64) -> &[u8] {
    let mut i = buf.len();
    if n == 0 {
        i -= 1;
        buf[i] = b'0';
    }
    while n > 0 {
        i -= 1;
        buf[i] = b'0' + (n % 10) as u8;
        n /= 10;
    }
    &buf[i..]
}

#[cold]
fn budget_exceeded(allocs: u64, bytes: u64) -> ! {
    // No allocation in here.
    use std::io::Write;
    IN_CASE.store(false, Relaxed);
    let mut e = std::io::stderr();
    let mut b = [0u8; 24];
    let _ = e.write_all(b"\nBUDGET idx=");
    let _ = e.write_all(raw_num(&mut b, CUR_IDX.load(Relaxed)));
    let _ = e.write_all(b" allocs=");
    let _ = e.write_all(raw_num(&mut b, allocs));
    let _ = e.write_all(b" bytes=");
    let _ = e.write_all(raw_num(&mut b, bytes));
    let _ = e.write_all(b"\n");
    std::process::exit(97);
}

unsafe impl GlobalAlloc for CountingAlloc {
    unsafe fn alloc(&self, l: Layout) -> *mut u8 {
        if MT_MODE.load(Relaxed) {
            // concurrent mode: no step budget, and no shared counters to fight over
            return System.alloc(l);
        }
        let a = ALLOCS.fetch_add(1, Relaxed) + 1;
        let b = BYTES.fetch_add(l.size() as u64, Relaxed) + l.size() as u64;
        if IN_CASE.load(Relaxed)
            && (a > ALLOC_LIMIT.load(Relaxed) || b > BYTES_LIMIT.load(Relaxed))
        {
            budget_exceeded(a, b);
        }
        System.alloc(l)
    }
    unsafe fn dealloc(&self, p: *mut u8, l: Layout) {
        System.dealloc(p, l)
    }
    unsafe fn realloc(&self, p: *mut u8, l: Layout, n: usize) -> *mut u8 {
        if MT_MODE.load(Relaxed) {
            return System.realloc(p, l, n);
        }
        let a = ALLOCS.fetch_add(1, Relaxed) + 1;
        let grow = n.saturating_sub(l.size()) as u64;
        let b = BYTES.fetch_add(grow, Relaxed) + grow;
        if IN_CASE.load(Relaxed)
            && (a > ALLOC_LIMIT.load(Relaxed) || b > BYTES_LIMIT.load(Relaxed))
        {
            budget_exceeded(a, b);
        }
        System.realloc(p, l, n)
    }
}

// ---------------------------------------------------------------------------
// Panic capture
// ---------------------------------------------------------------------------

thread_local! {
    /// Message of the last panic on this thread (the hook runs on the
    /// panicking thread, the catch site reads it on the same one).
    static LAST_PANIC: std::cell::RefCell<Option<String>> = const { std::cell::RefCell::new(None) };
    /// Is this thread inside a monitored case?  (Per thread, for the panic
    /// hook; the step budget uses the process-wide IN_CASE.)
    static IN_CASE_TL: std::cell::Cell<bool> = const { std::cell::Cell::new(false) };
}

/// Concurrent mode (`pvh run-mt`): several monitors run at once in one
/// process.  The step budget and the published case number are process-wide
/// and therefore switched off; everything else is per `Cx`.
pub static MT_MODE: AtomicBool = AtomicBool::new(false);

pub fn install_panic_hook() {
    panic::set_hook(Box::new(|info| {
        let loc = info
            .location()
            .map(|l| format!("{}:{}", l.file(), l.line()))
            .unwrap_or_else(|| "?".into());
        let msg = if let Some(s) = info.payload().downcast_ref::<&str>() {
            s.to_string()
        } else if let Some(s) = info.payload().downcast_ref::<String>() {
            s.clone()
        } else {
            "<non-string panic payload>".to_string()
        };
        if !IN_CASE_TL.with(|c| c.get()) {
            // a panic outside a monitored case is a harness error: show it
            eprintln!("pvh: harness panic at {loc}: {msg}");
        }
        LAST_PANIC.with(|g| *g.borrow_mut() = Some(format!("panic at {loc}: {msg}")));
    }));
}

// ---------------------------------------------------------------------------
// Tiers
// ---------------------------------------------------------------------------

#[derive(Clone, Copy, Debug, PartialEq, Eq)]
pub enum Tier {
    /// Tiny workload for Miri / valgrind (10^4 x slowdown).
    Mini,
    /// Reduced workload for the unoptimised overflow-checking build and ASan.
    Small,
    Quick,
    Thorough,
}

impl Tier {
    pub fn parse(s: &str) -> Option<Tier> {
        match s {
            "mini" => Some(Tier::Mini),
            "small" => Some(Tier::Small),
            "quick" => Some(Tier::Quick),
            "thorough" => Some(Tier::Thorough),
            _ => None,
        }
    }
    pub fn name(self) -> &'static str {
        match self {
            Tier::Mini => "mini",
            Tier::Small => "small",
            Tier::Quick => "quick",
            Tier::Thorough => "thorough",
        }
    }
}

// ---------------------------------------------------------------------------
// Evidence collected by one shard
// ---------------------------------------------------------------------------

pub const FP_CAP: usize = 400_000;
pub const MAX_FAILS: usize = 12;
pub const MAX_SAMPLES: usize = 6;

#[derive(Default)]
pub struct Ev {
    pub counters: BTreeMap<String, u64>,
    /// Fingerprints of distinct non-trivial cases (capped; a capped set makes
    /// the reported number a lower bound).
    pub fps: HashSet<u64>,
    pub fp_capped: bool,
    pub nontrivial_total: u64,
    pub evaluations: u64,
    pub required: Vec<String>,
}

impl Ev {
    pub fn count(&mut self, key: &str) {
        *self.counters.entry(key.to_string()).or_insert(0) += 1;
    }
    pub fn add(&mut self, key: &str, n: u64) {
        *self.counters.entry(key.to_string()).or_insert(0) += n;
    }
    pub fn max(&mut self, key: &str, n: u64) {
        let e = self.counters.entry(key.to_string()).or_insert(0);
        if n > *e {
            *e = n;
        }
    }
    /// One oracle comparison was made.
    pub fn eval(&mut self) {
        self.evaluations += 1;
    }
    pub fn evals(&mut self, n: u64) {
        self.evaluations += n;
    }
    /// Record a non-trivial case by fingerprint.
    pub fn nontrivial(&mut self, fp: u64) {
        self.nontrivial_total += 1;
        if self.fps.len() < FP_CAP {
            self.fps.insert(fp);
        } else if !self.fps.contains(&fp) {
            self.fp_capped = true;
        }
    }
    /// Declare a counter key that must be non-zero in the merged evidence,
    /// otherwise the run is inconclusive.
    pub fn require(&mut self, key: &str) {
        if !self.required.iter().any(|k| k == key) {
            self.required.push(key.to_string());
        }
    }
}

pub struct Failure {
    pub idx: u64,
    pub kind: &'static str,
    pub sig: Option<String>,
    pub desc: String,
    pub msg: String,
}

/// What a case body returns when the observation refutes the property.
pub struct Fail {
    pub sig: Option<&'static str>,
    pub msg: String,
}

impl From<String> for Fail {
    fn from(msg: String) -> Fail {
        Fail { sig: None, msg }
    }
}
impl From<&str> for Fail {
    fn from(msg: &str) -> Fail {
        Fail { sig: None, msg: msg.to_string() }
    }
}

pub fn known(sig: &'static str, msg: String) -> Fail {
    Fail { sig: Some(sig), msg }
}

pub type CaseResult = Result<(), Fail>;

pub struct Cx {
    pub prop: String,
    pub tier: Tier,
    pub seed: u64,
    pub shard: u64,
    pub nshards: u64,
    pub engine: String,
    pub rng: Rng,
    pub ev: Ev,
    pub idx: u64,
    pub replay: Option<u64>,
    pub describe_only: bool,
    pub trace: bool,
    pub failures: Vec<Failure>,
    pub failures_total: u64,
    pub known_counts: BTreeMap<String, u64>,
    pub samples: Vec<String>,
    pub max_allocs: u64,
    pub max_bytes: u64,
    pub executed: u64,
    pub start: Instant,
    pub scratch: std::path::PathBuf,
}

impl Cx {
    /// A fresh random stream for a named workload, distinct per shard.
    pub fn stream(&self, label: &str) -> Rng {
        Rng::stream(self.seed, &format!("{}/{}", self.prop, label), self.shard, self.nshards)
    }
    /// A stream that is the same in every shard (for shared pools that are
    /// then partitioned with `mine`).
    pub fn shared_stream(&self, label: &str) -> Rng {
        Rng::stream(self.seed, &format!("{}/{}", self.prop, label), u64::MAX, 0)
    }
    /// Partition an enumeration over the shards.
    pub fn mine(&self, i: u64) -> bool {
        i % self.nshards == self.shard
    }
    /// Workload size per shard for a total given per tier.
    pub fn per_shard(&self, mini: u64, small: u64, quick: u64, thorough: u64) -> u64 {
        let total = match self.tier {
            Tier::Mini => mini,
            Tier::Small => small,
            Tier::Quick => quick,
            Tier::Thorough => thorough,
        };
        (total + self.nshards - 1) / self.nshards
    }
    pub fn pick_tier<T: Copy>(&self, mini: T, small: T, quick: T, thorough: T) -> T {
        match self.tier {
            Tier::Mini => mini,
            Tier::Small => small,
            Tier::Quick => quick,
            Tier::Thorough => thorough,
        }
    }

    /// Set the step budget for the following cases (allocation count and
    /// allocated bytes per case).  The default is 2^24 allocations / 1 GiB.
    pub fn set_budget(&mut self, allocs: u64, bytes: u64) {
        if MT_MODE.load(Relaxed) {
            return;
        }
        ALLOC_LIMIT.store(allocs, Relaxed);
        BYTES_LIMIT.store(bytes, Relaxed);
    }
    pub fn default_budget(&mut self) {
        self.set_budget(1 << 24, 1 << 30);
    }

    /// Run one monitored case.  `desc` is only evaluated for samples,
    /// failures and describe mode.  Returns false when the body was skipped
    /// (replay of another case).
    pub fn check<D, F>(&mut self, desc: D, body: F) -> bool
    where
        D: FnOnce() -> String,
        F: FnOnce(&mut Ev) -> CaseResult,
    {
        self.idx += 1;
        let idx = self.idx;
        if let Some(target) = self.replay {
            if target != idx {
                return false;
            }
            if self.describe_only {
                println!("CASE idx={} {}", idx, desc());
                return false;
            }
        }
        if self.trace {
            eprintln!("TRACE idx={idx}");
        }
        let mt = MT_MODE.load(Relaxed);
        PROGRESS.fetch_add(1, Relaxed);
        let a0 = ALLOCS.load(Relaxed);
        let b0 = BYTES.load(Relaxed);
        let (al, bl) = (ALLOC_LIMIT.load(Relaxed), BYTES_LIMIT.load(Relaxed));
        if !mt {
            CUR_IDX.store(idx, Relaxed);
            // Limits are per case: rebase them on the current totals.
            ALLOC_LIMIT.store(a0.saturating_add(al), Relaxed);
            BYTES_LIMIT.store(b0.saturating_add(bl), Relaxed);
            IN_CASE.store(true, Relaxed);
        }
        IN_CASE_TL.with(|c| c.set(true));
        let ev = &mut self.ev;
        let r = panic::catch_unwind(AssertUnwindSafe(|| body(ev)));
        IN_CASE_TL.with(|c| c.set(false));
        if !mt {
            IN_CASE.store(false, Relaxed);
            ALLOC_LIMIT.store(al, Relaxed);
            BYTES_LIMIT.store(bl, Relaxed);
        }
        let da = ALLOCS.load(Relaxed) - a0;
        let db = BYTES.load(Relaxed) - b0;
        if da > self.max_allocs {
            self.max_allocs = da;
        }
        if db > self.max_bytes {
            self.max_bytes = db;
        }
        self.executed += 1;
        let fail: Option<(&'static str, Option<String>, String)> = match r {
            Ok(Ok(())) => None,
            Ok(Err(f)) => Some(("mismatch", f.sig.map(|s| s.to_string()), f.msg)),
            Err(_) => {
                let m = LAST_PANIC.with(|g| g.borrow_mut().take()).unwrap_or_else(|| "panic (no message)".into());
                Some(("panic", None, m))
            }
        };
        match fail {
            None => {
                // Keep a few samples: the first two and then sparsely.
                if self.samples.len() < MAX_SAMPLES
                    && (self.executed <= 2 || self.executed.is_power_of_two())
                {
                    self.samples.push(desc());
                }
            }
            Some((kind, sig, msg)) => {
                self.failures_total += 1;
                if let Some(s) = &sig {
                    *self.known_counts.entry(s.clone()).or_insert(0) += 1;
                }
                // Keep the first failures, but always make room for the first
                // failure of each signature (incl. None).
                let have_sig = self.failures.iter().any(|f| f.sig == sig);
                if self.failures.len() < MAX_FAILS || !have_sig {
                    self.failures.push(Failure { idx, kind, sig, desc: desc(), msg });
                }
            }
        }
        true
    }

    pub fn to_json(&self) -> String {
        let mut o = J::obj();
        o.s("property", &self.prop);
        o.s("tier", self.tier.name());
        o.u("seed", self.seed);
        o.u("shard", self.shard);
        o.u("nshards", self.nshards);
        o.s("engine", &self.engine);
        o.u("cases", self.idx);
        o.u("executed", self.executed);
        o.u("evaluations", self.ev.evaluations);
        o.u("nontrivial_total", self.ev.nontrivial_total);
        o.u("nontrivial_distinct_shard", self.ev.fps.len() as u64);
        o.b("fp_capped", self.ev.fp_capped);
        o.u("failures_total", self.failures_total);
        o.u("max_allocs_per_case", self.max_allocs);
        o.u("max_bytes_per_case", self.max_bytes);
        o.f("wall_s", self.start.elapsed().as_secs_f64());
        let mut c = J::obj();
        for (k, v) in &self.ev.counters {
            c.u(k, *v);
        }
        o.raw("counters", &c.finish());
        let mut k = J::obj();
        for (s, v) in &self.known_counts {
            k.u(s, *v);
        }
        o.raw("sig_counts", &k.finish());
        o.raw("required", &J::str_array(&self.ev.required));
        o.raw("samples", &J::str_array(&self.samples));
        let mut fs = Vec::new();
        for f in &self.failures {
            let mut j = J::obj();
            j.u("idx", f.idx);
            j.s("kind", f.kind);
            match &f.sig {
                Some(s) => j.s("sig", s),
                None => j.raw("sig", "null"),
            }
            j.s("desc", &f.desc);
            j.s("msg", &f.msg);
            fs.push(j.finish());
        }
        o.raw("failures", &format!("[{}]", fs.join(",")));
        o.finish()
    }
}

/// Watchdog: a generous wall-clock limit per case.  Its firing is never a
/// verdict by itself; the driver re-runs the case in isolation.
pub fn start_watchdog(limit_s: u64) {
    std::thread::spawn(move || {
        let mut last = PROGRESS.load(Relaxed);
        let mut since = Instant::now();
        loop {
            std::thread::sleep(std::time::Duration::from_millis(500));
            let p = PROGRESS.load(Relaxed);
            if p != last {
                last = p;
                since = Instant::now();
                continue;
            }
            if IN_CASE.load(Relaxed) && since.elapsed().as_secs() >= limit_s {
                eprintln!("\nSTALL idx={} seconds={}", CUR_IDX.load(Relaxed), limit_s);
                std::process::exit(98);
            }
        }
    });
}

pub fn hex(b: &[u8]) -> String {
    let mut s = String::with_capacity(b.len() * 2);
    for x in b {
        s.push_str(&format!("{x:02x}"));
    }
    s
}

/// Printable rendering of bytes for descriptions: ASCII kept, the rest \xNN.
pub fn show(b: &[u8]) -> String {
    let mut s = String::new();
    for &x in b {
        match x {
            b'\\' => s.push_str("\\\\"),
            b'\n' => s.push_str("\\n"),
            b'\t' => s.push_str("\\t"),
            0x20..=0x7e => s.push(x as char),
            _ => s.push_str(&format!("\\x{x:02x}")),
        }
    }
    s
}

pub fn write_fps(path: &std::path::Path, fps: &HashSet<u64>) -> std::io::Result<()> {
    let mut v: Vec<u8> = Vec::with_capacity(fps.len() * 8);
    for f in fps {
        v.extend_from_slice(&f.to_le_bytes());
    }
    std::fs::write(path, v)
}
