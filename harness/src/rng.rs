//! SplitMix64: every random choice in the harness derives from VERIF_SEED
//! through named streams, so a run is reproducible from (seed, shard).

#[derive(Clone, Debug)]
pub struct Rng(u64);

fn mix(mut z: u64) -> u64 {
    z = (z ^ (z >> 30)).wrapping_mul(0xBF58476D1CE4E5B9);
    z = (z ^ (z >> 27)).wrapping_mul(0x94D049BB133111EB);
    z ^ (z >> 31)
}

pub fn hash_bytes(b: &[u8]) -> u64 {
    // FNV-1a then a final mix; only used for case fingerprints.
    let mut h: u64 = 0xcbf29ce484222325;
    for &x in b {
        h ^= x as u64;
        h = h.wrapping_mul(0x100000001b3);
    }
    mix(h)
}

pub fn hash_strs(parts: &[&[u8]]) -> u64 {
    let mut h: u64 = 0x9E3779B97F4A7C15;
    for p in parts {
        h = mix(h ^ hash_bytes(p)).wrapping_add(p.len() as u64);
    }
    h
}

impl Rng {
    pub fn new(seed: u64) -> Rng {
        Rng(mix(seed ^ 0x5851F42D4C957F2D))
    }
    /// Independent stream named by a label and numbers.
    pub fn stream(seed: u64, label: &str, a: u64, b: u64) -> Rng {
        let mut s = mix(seed.wrapping_add(0x9E3779B97F4A7C15));
        s = mix(s ^ hash_bytes(label.as_bytes()));
        s = mix(s ^ a.wrapping_mul(0xD1342543DE82EF95));
        s = mix(s ^ b.wrapping_mul(0xA24BAED4963EE407));
        Rng(s)
    }
    pub fn next(&mut self) -> u64 {
        self.0 = self.0.wrapping_add(0x9E3779B97F4A7C15);
        mix(self.0)
    }
    /// Uniform in 0..n (n > 0).
    pub fn below(&mut self, n: usize) -> usize {
        debug_assert!(n > 0);
        ((self.next() >> 11) % (n as u64)) as usize
    }
    /// Uniform in lo..=hi.
    pub fn range(&mut self, lo: usize, hi: usize) -> usize {
        lo + self.below(hi - lo + 1)
    }
    /// True with probability num/den.
    pub fn chance(&mut self, num: usize, den: usize) -> bool {
        self.below(den) < num
    }
    pub fn pick<'a, T>(&mut self, xs: &'a [T]) -> &'a T {
        &xs[self.below(xs.len())]
    }
    pub fn byte(&mut self) -> u8 {
        (self.next() >> 24) as u8
    }
    pub fn bytes(&mut self, n: usize) -> Vec<u8> {
        (0..n).map(|_| self.byte()).collect()
    }
    pub fn shuffle<T>(&mut self, xs: &mut [T]) {
        for i in (1..xs.len()).rev() {
            let j = self.below(i + 1);
            xs.swap(i, j);
        }
    }
}
