//! libFuzzer target for C17: the first byte selects a public entry point,
//! the rest is its input.  Any panic, abort or sanitizer report is a crash
//! artifact; the driver turns artifacts into C17 violations.
#![no_main]

use libfuzzer_sys::fuzz_target;
use pkgsrc::digest::Digest;
use pkgsrc::distinfo::{Distinfo, EntryType};
use pkgsrc::plist::{Plist, PlistEntry};
use pkgsrc::summary::{Summary, SummaryStream};
use pkgsrc::{Depend, Dewey, Metadata, MetadataEntry, Pattern, PkgName, PkgPath, ScanIndex};
use std::io::Write;
use std::str::FromStr;

fn braces_nested(p: &str) -> bool {
    let mut d: i64 = 0;
    for c in p.chars() {
        if c == '{' {
            d += 1;
        } else if c == '}' {
            d -= 1;
            if d < 0 {
                return false;
            }
        }
    }
    d == 0
}

/// Number of csh expansions, saturating at cap+1 (copy of the harness oracle).
fn count_expansions(p: &[char], cap: usize) -> usize {
    let mut total: usize = 1;
    let mut i = 0;
    while i < p.len() {
        if p[i] == '{' {
            let (mut depth, mut j, mut start, mut sum) = (0, i, i + 1, 0usize);
            loop {
                if p[j] == '{' {
                    depth += 1;
                } else if p[j] == '}' {
                    depth -= 1;
                    if depth == 0 {
                        sum = sum.saturating_add(count_expansions(&p[start..j], cap));
                        break;
                    }
                } else if p[j] == ',' && depth == 1 {
                    sum = sum.saturating_add(count_expansions(&p[start..j], cap));
                    start = j + 1;
                }
                j += 1;
            }
            total = total.saturating_mul(sum);
            if total > cap {
                return cap + 1;
            }
            i = j + 1;
        } else {
            i += 1;
        }
    }
    total
}

fn matchable(p: &str) -> bool {
    if !p.contains('{') {
        return true;
    }
    if !braces_nested(p) {
        return true; // does not compile anyway
    }
    let c: Vec<char> = p.chars().collect();
    count_expansions(&c, 512) <= 512
}

fn all_entries() -> Vec<MetadataEntry> {
    vec![
        MetadataEntry::BuildInfo, MetadataEntry::BuildVersion, MetadataEntry::Comment, MetadataEntry::Contents,
        MetadataEntry::DeInstall, MetadataEntry::Desc, MetadataEntry::Display, MetadataEntry::Install,
        MetadataEntry::InstalledInfo, MetadataEntry::MtreeDirs, MetadataEntry::Preserve, MetadataEntry::RequiredBy,
        MetadataEntry::SizeAll, MetadataEntry::SizePkg,
    ]
}

fuzz_target!(|data: &[u8]| {
    if data.is_empty() {
        return;
    }
    let (sel, input) = (data[0], &data[1..]);
    let text = String::from_utf8_lossy(input);
    match sel % 12 {
        0 => {
            // "pattern\0name\0name2"
            let mut parts = text.splitn(3, '\0');
            let p = parts.next().unwrap_or("");
            let n1 = parts.next().unwrap_or("p-1.0");
            let n2 = parts.next().unwrap_or("p-2.0");
            let ok = matchable(p);
            if let Ok(pat) = Pattern::new(p) {
                if ok {
                    let _ = pat.matches(n1);
                    let _ = pat.best_match(n1, n2);
                }
            }
            if let Ok(d) = Dewey::new(p) {
                let _ = d.matches(n1);
            }
        }
        1 => {
            let n = PkgName::new(&text);
            let _ = (n.pkgbase(), n.pkgversion(), n.pkgrevision());
            if let Ok(p) = Pattern::new("*-[0-9]*") {
                let _ = p.best_match(&text, "a-1nb2");
            }
            if let Ok(p) = Pattern::new("p>=1<99999999999999999999") {
                let _ = p.matches(&text);
            }
        }
        2 => {
            let _ = PkgPath::new(&text).map(|p| p.as_full_path().to_path_buf());
            if matchable(text.split(':').next().unwrap_or("")) {
                let _ = Depend::new(&text).map(|d| d.pattern().matches("a-1"));
            }
        }
        3 => {
            if let Ok(s) = Summary::from_str(&text) {
                let _ = format!("{s}");
                let _ = (s.pkgbase(), s.pkgversion());
            }
        }
        4 => {
            // first input byte = chunk size
            if input.is_empty() {
                return;
            }
            let chunk = 1 + input[0] as usize;
            let mut st = SummaryStream::new();
            for c in input[1..].chunks(chunk) {
                if st.write(c).is_err() {
                    break;
                }
            }
            let _ = format!("{st}");
        }
        5 => {
            if let Ok(p) = Plist::from_bytes(input) {
                let _ = (p.files(), p.files_prefixed(), p.install_cmds().len(), p.uninstall_cmds().len());
                let _ = (p.pkgname(), p.display(), p.depends(), p.build_depends(), p.conflicts(), p.pkgdirs(), p.pkgrmdirs(), p.is_preserve());
            }
            let _ = PlistEntry::from_bytes(input).map_err(|e| e.to_string());
        }
        6 => {
            let d = Distinfo::from_bytes(input);
            let out = d.as_bytes();
            let _ = Distinfo::from_bytes(&out);
            for e in d.distfiles().iter().chain(d.patchfiles().iter()) {
                let _ = d.find_entry(std::path::Path::new("/d").join(&e.filename));
                let _ = e.as_bytes();
            }
            let _ = EntryType::from(text.as_ref());
        }
        7 => {
            let _ = ScanIndex::from_reader(input).map(|v| v.len());
        }
        8 => {
            let _ = Digest::from_str(&text).map(|d| d.to_string());
        }
        9 => {
            for d in [Digest::BLAKE2s, Digest::MD5, Digest::RMD160, Digest::SHA1, Digest::SHA256, Digest::SHA512] {
                let _ = d.hash_str(&text);
                let _ = d.hash_file(&mut &input[..]);
                let _ = d.hash_patch(&mut &input[..]);
            }
        }
        10 => {
            let mut md = Metadata::new();
            for e in all_entries() {
                let _ = md.read_metadata(e, &text);
            }
            let _ = md.is_valid();
            let _ = MetadataEntry::from_filename(&text).map(|e| e.to_filename().to_string());
        }
        _ => {
            // Summary call sequence: each input byte is one call
            let mut s = Summary::new();
            for (i, b) in input.iter().enumerate().take(200) {
                let v = &text[..text.char_indices().nth(i % 7).map(|x| x.0).unwrap_or(0)];
                match b % 16 {
                    0 => s.set_pkgname(v),
                    1 => s.push_description(v),
                    2 => s.set_description(&[v.to_string()]),
                    3 => s.set_size_pkg(*b as i64),
                    4 => s.push_depends(v),
                    5 => s.set_depends(&[]),
                    6 => drop(s.pkgbase()),
                    7 => drop(s.pkgversion()),
                    8 => drop(s.description_as_str()),
                    9 => drop(format!("{s}")),
                    10 => drop(s.is_completed()),
                    11 => s.set_build_date(v),
                    12 => s.set_file_size(-(*b as i64)),
                    13 => drop(s.depends()),
                    14 => drop(s.size_pkg()),
                    _ => drop(Summary::from_str(&format!("{s}"))),
                }
            }
        }
    }
});
