//! Coverage-guided *differential* fuzz target (thorough tier): the first
//! byte selects a property-level oracle, the rest is the input.  A failed
//! oracle panics with a message starting "ORACLE <property>:", which makes
//! libFuzzer write a crash artifact; the driver attributes the artifact to
//! the property named in the message.
//!
//! Unlike the generators of the monitors, coverage feedback adapts to the
//! code under test: a fast path added for long inputs or special tokens
//! shows up as new coverage and is then explored.
#![no_main]

#[path = "../../src/oracle/dewey.rs"]
#[allow(dead_code)]
mod dewey;
#[path = "../../src/oracle/pattern.rs"]
#[allow(dead_code)]
mod pattern;

use dewey::{Weight, OPS};
use libfuzzer_sys::fuzz_target;
use pkgsrc::digest::Digest;
use pkgsrc::plist::{Plist, PlistEntry};
use pkgsrc::summary::{Summary, SummaryStream};
use pkgsrc::{Dewey, Pattern, ScanIndex};
use std::io::{Read, Write};
use std::str::FromStr;

fn usable_version(v: &str) -> bool {
    if v.starts_with('=') || v.contains(|c| matches!(c, '-' | '<' | '>' | '{' | '}' | '\0')) {
        return false;
    }
    let (mut best, mut cur) = (0, 0);
    for b in v.bytes() {
        if b.is_ascii_digit() {
            cur += 1;
            best = best.max(cur);
        } else {
            cur = 0;
        }
    }
    best <= 18
}

/// C01/C02/C03: "A\0B" - all four operators through Pattern and Dewey.
fn dewey_pair(text: &str) {
    let mut it = text.splitn(2, '\0');
    let (a, b) = (it.next().unwrap_or(""), it.next().unwrap_or(""));
    if !usable_version(a) || !usable_version(b) || a.len() > 200 || b.len() > 200 {
        return;
    }
    let name = format!("p-{a}");
    for op in OPS {
        let pt = format!("p{}{}", op.text(), b);
        let (Ok(p), Ok(d)) = (Pattern::new(&pt), Dewey::new(&pt)) else {
            panic!("ORACLE C02: {pt:?} does not compile");
        };
        let got = p.matches(&name);
        if got != d.matches(&name) {
            panic!("ORACLE C02: Pattern and Dewey disagree for {pt:?} on {name:?}");
        }
        let w = dewey::satisfies(a, op, b);
        if got != w.rank && !(w.rank != w.ascii && got == w.ascii) {
            panic!("ORACLE C01: {pt:?} on {name:?} = {got}, dewey rule says {}", w.rank);
        }
    }
    // side swap (C03)
    let lt = Pattern::new(&format!("p<{b}")).map(|p| p.matches(&name)).unwrap_or(false);
    let gt_sw = Pattern::new(&format!("p>{a}")).map(|p| p.matches(&format!("p-{b}"))).unwrap_or(false);
    if lt != gt_sw {
        panic!("ORACLE C03: 'p<B' on p-A = {lt} but 'p>A' on p-B = {gt_sw} (A={a:?} B={b:?})");
    }
    // best_match (C06) on the pair
    if let Ok(star) = Pattern::new("p-*") {
        let nb = format!("p-{b}");
        let got = star.best_match(&name, &nb);
        let rev = star.best_match(&nb, &name);
        if got != rev {
            panic!("ORACLE C06: best_match depends on argument order for {name:?} / {nb:?}");
        }
        let (r, s) = (dewey::order(a, b, Weight::Rank), dewey::order(a, b, Weight::Ascii));
        if r == s {
            let want = match r {
                std::cmp::Ordering::Greater => name.as_str(),
                std::cmp::Ordering::Less => nb.as_str(),
                std::cmp::Ordering::Equal => {
                    if name <= nb {
                        name.as_str()
                    } else {
                        nb.as_str()
                    }
                }
            };
            if got != Some(want) {
                panic!("ORACLE C06: best_match(p-*, {name:?}, {nb:?}) = {got:?}, expected {want:?}");
            }
        }
    }
}

/// C04: "pattern\0name".
fn alternation(text: &str) {
    let mut it = text.splitn(2, '\0');
    let (p, name) = (it.next().unwrap_or(""), it.next().unwrap_or(""));
    if !(p.contains('{') || p.contains('}')) || p.len() > 300 {
        return;
    }
    let nested = pattern::braces_nested(p);
    let got = Pattern::new(p);
    if got.is_ok() != nested {
        panic!("ORACLE C04: Pattern::new({p:?}).is_ok() = {} but properly nested = {nested}", got.is_ok());
    }
    let Ok(pat) = got else { return };
    if p.contains("{}") || pattern::count_expansions(p, 256) > 256 {
        return;
    }
    let want = pattern::expand(p).iter().any(|e| Pattern::new(e).map(|q| q.matches(name)).unwrap_or(false));
    if pat.matches(name) != want {
        panic!("ORACLE C04: {p:?} on {name:?} = {}, union of expansions = {want}", !want);
    }
}

/// C05: "pattern\0name" for brace-free, operator-free patterns.
fn glob_or_plain(text: &str) {
    let mut it = text.splitn(2, '\0');
    let (p, name) = (it.next().unwrap_or(""), it.next().unwrap_or(""));
    if p.contains(|c| matches!(c, '{' | '}' | '<' | '>')) || name.starts_with('.') {
        return;
    }
    if !pattern::has_glob_meta(p) {
        match Pattern::new(p) {
            Ok(q) => {
                if q.matches(name) != (p == name) {
                    panic!("ORACLE C05: plain {p:?} on {name:?} = {}", p != name);
                }
            }
            Err(e) => panic!("ORACLE C05: plain {p:?} rejected: {e}"),
        }
        return;
    }
    match pattern::parse_glob(p) {
        pattern::GlobParse::OutOfSubset => {}
        pattern::GlobParse::Unclosed => {
            if Pattern::new(p).is_ok() {
                panic!("ORACLE C05: unclosed '[' accepted in {p:?}");
            }
        }
        pattern::GlobParse::Ok(toks) => {
            let Ok(q) = Pattern::new(p) else { panic!("ORACLE C05: well-formed glob {p:?} rejected") };
            let nc: Vec<char> = name.chars().collect();
            let want = pattern::glob_match(&toks, &nc);
            if q.matches(name) != want {
                panic!("ORACLE C05: glob {p:?} on {name:?} = {}, shell semantics say {want}", !want);
            }
        }
    }
}

const REQUIRED: [&str; 11] = [
    "BUILD_DATE", "CATEGORIES", "COMMENT", "DESCRIPTION", "MACHINE_ARCH", "OPSYS", "OS_VERSION", "PKGNAME",
    "PKGPATH", "PKGTOOLS_VERSION", "SIZE_PKG",
];

/// C09 (and C07 canonical print): the input is decoded into a well-formed
/// stream: byte 0 = number of entries, byte 1.. = chunk size selectors and
/// value material.
fn stream(input: &[u8]) {
    if input.len() < 4 {
        return;
    }
    // a repeat factor lets a short input describe a stream of hundreds of
    // kilobytes (size thresholds in buffering code)
    let rep = [1usize, 1, 1, 8, 64, 300][(input[0] / 4 % 6) as usize];
    let n = (1 + (input[0] % 4) as usize) * rep;
    let sizes = &input[1..4];
    let text = String::from_utf8_lossy(&input[4..]);
    let mut vals = text.split(['\n', '\r']).map(|v| v.to_string()).collect::<Vec<_>>();
    vals.retain(|v| v.len() < 400);
    if vals.is_empty() {
        vals.push(String::new());
    }
    let mut s = String::new();
    let mut k = 0;
    for e in 0..n {
        for (i, var) in REQUIRED.iter().enumerate() {
            let v = &vals[k % vals.len()];
            k += 1;
            if *var == "SIZE_PKG" {
                s.push_str(&format!("SIZE_PKG={}\n", (e * 31 + i) as i64 - 5));
            } else {
                s.push_str(&format!("{var}={v}\n"));
            }
        }
        s.push('\n');
    }
    let bytes = s.as_bytes();
    let mut one = SummaryStream::new();
    match one.write(bytes) {
        Ok(l) if l == bytes.len() => {}
        other => panic!("ORACLE C09: one-call write of a well-formed stream returned {other:?}"),
    }
    if one.entries().len() != n || format!("{one}") != s {
        panic!("ORACLE C09: one-call write collected {} of {n} entries or does not print back", one.entries().len());
    }
    // chunked: sizes cycle through the three selectors (1..=256, scaled)
    let mut st = SummaryStream::new();
    let mut pos = 0;
    let mut j = 0;
    while pos < bytes.len() {
        let sel = sizes[j % 3] as usize;
        j += 1;
        let len = ((1 + sel * sel / 64) * if rep > 1 { rep * 40 } else { 1 }).min(bytes.len() - pos);
        match st.write(&bytes[pos..pos + len]) {
            Ok(l) if l == len => {}
            other => panic!("ORACLE C09: write of {len} bytes at offset {pos} returned {other:?}"),
        }
        pos += len;
        if j > 4000 {
            return;
        }
    }
    if st.entries().len() != n || format!("{st}") != s {
        panic!("ORACLE C09: chunked write collected {} of {n} entries or does not print back", st.entries().len());
    }
    // C07: every entry parses back to the same text
    for e in st.entries() {
        let t = format!("{e}");
        match Summary::from_str(&t) {
            Ok(p) if format!("{p}") == t => {}
            _ => panic!("ORACLE C07: printed entry does not parse back to itself"),
        }
    }
}

fn disputed(b: u8) -> bool {
    matches!(b, 0x0b | 0x0c | 0x0d | 0x1c..=0x1f | 0x85 | 0xa0)
}

/// C14: the document must parse to the per-line entries, in order.
fn plist(input: &[u8]) {
    let mut want: Vec<PlistEntry> = vec![];
    let mut any_err = false;
    for line in input.split(|c| *c == b'\n') {
        let first = line.iter().position(|c| !matches!(c, b' ' | b'\t'));
        let Some(f) = first else { continue };
        if disputed(line[f]) {
            return; // white-space status of the byte is disputed (DESIGN section 4)
        }
        if let Some(sp) = line.iter().position(|c| *c == b' ') {
            if let Some(a) = line[sp..].iter().position(|c| !matches!(c, b' ' | b'\t')) {
                if disputed(line[sp + a]) {
                    return;
                }
            }
        }
        match PlistEntry::from_bytes(line) {
            Ok(e) => want.push(e),
            Err(_) => any_err = true,
        }
    }
    match Plist::from_bytes(input) {
        Ok(p) => {
            if any_err {
                panic!("ORACLE C14: a document with a faulty line parsed");
            }
            let d = format!("{p:?}");
            let m = format!("{want:?}");
            if !d.contains(&m) {
                panic!("ORACLE C14: document parsed to {d}, the lines one by one give {m}");
            }
        }
        Err(_) => {
            if !any_err {
                panic!("ORACLE C14: every line parses alone but the document fails");
            }
        }
    }
}

struct Sched<'a> {
    data: &'a [u8],
    pos: usize,
    sizes: &'a [u8],
    k: usize,
}

impl Read for Sched<'_> {
    fn read(&mut self, buf: &mut [u8]) -> std::io::Result<usize> {
        let sel = self.sizes[self.k % self.sizes.len()];
        self.k += 1;
        if sel == 0xff && self.k < 200 {
            return Err(std::io::Error::new(std::io::ErrorKind::Interrupted, "eintr"));
        }
        let n = (1 + sel as usize).min(buf.len()).min(self.data.len() - self.pos);
        buf[..n].copy_from_slice(&self.data[self.pos..self.pos + n]);
        self.pos += n;
        Ok(n)
    }
}

/// C13 (schedule independence; the absolute digests are the hashlib oracle's
/// business): any read schedule gives the digest of the whole-slice read,
/// and hash_patch equals hash_file of the filtered text.
fn digests(input: &[u8]) {
    if input.len() < 5 {
        return;
    }
    let d = [Digest::BLAKE2s, Digest::MD5, Digest::RMD160, Digest::SHA1, Digest::SHA256, Digest::SHA512][(input[0] % 6) as usize];
    let sizes = &input[1..5];
    // repeat factor: boundaries at 8 KiB / 64 KiB / 128 KiB become reachable
    let rep = [1usize, 1, 1, 7, 50, 400][(input[0] / 6 % 6) as usize];
    let repeated: Vec<u8>;
    let data: &[u8] = if rep == 1 {
        &input[5..]
    } else {
        // the first line is repeated, the rest follows once: long lines and
        // late markers
        let body = &input[5..];
        let cut = body.iter().position(|c| *c == b'\n').unwrap_or(body.len());
        let mut v = Vec::with_capacity(cut * rep + body.len());
        for _ in 0..rep {
            v.extend_from_slice(&body[..cut]);
        }
        v.extend_from_slice(&body[cut..]);
        repeated = v;
        &repeated
    };
    let whole = d.hash_file(&mut &data[..]).unwrap_or_else(|e| panic!("ORACLE C13: hash_file failed on a slice: {e}"));
    let sched = d.hash_file(&mut Sched { data, pos: 0, sizes, k: 0 });
    if sched.as_ref().ok() != Some(&whole) {
        panic!("ORACLE C13: {d} hash_file under a read schedule gives {sched:?}, whole read gives {whole}");
    }
    if let Ok(s) = std::str::from_utf8(data) {
        if d.hash_str(s).ok().as_ref() != Some(&whole) {
            panic!("ORACLE C13: {d} hash_str differs from hash_file");
        }
    }
    // own filter
    let mut filtered = vec![];
    let mut lines: Vec<&[u8]> = data.split(|c| *c == b'\n').collect();
    if lines.last().map(|l| l.is_empty()).unwrap_or(false) {
        lines.pop();
    }
    for l in lines {
        if !l.windows(7).any(|w| w == b"$NetBSD") {
            filtered.extend_from_slice(l);
            filtered.push(b'\n');
        }
    }
    let want = d.hash_file(&mut &filtered[..]).unwrap_or_default();
    let p1 = d.hash_patch(&mut &data[..]);
    let p2 = d.hash_patch(&mut Sched { data, pos: 0, sizes, k: 0 });
    if p1.as_ref().ok() != Some(&want) || p2.as_ref().ok() != Some(&want) {
        panic!("ORACLE C13: {d} hash_patch gives {p1:?} / {p2:?}, filtered text hashes to {want}");
    }
}

/// C16: the result depends on the bytes only, not on the reader's buffering.
fn scanindex(input: &[u8]) {
    if input.is_empty() {
        return;
    }
    let cap = 1 + input[0] as usize;
    let data = &input[1..];
    let a = ScanIndex::from_reader(data);
    let b = ScanIndex::from_reader(std::io::BufReader::with_capacity(cap, data));
    match (a, b) {
        (Ok(x), Ok(y)) => {
            if x != y {
                panic!("ORACLE C16: records differ between an unbuffered slice and a BufReader of capacity {cap}");
            }
        }
        (Err(_), Err(_)) => {}
        (x, y) => panic!("ORACLE C16: slice read is_ok={} but BufReader({cap}) is_ok={}", x.is_ok(), y.is_ok()),
    }
}

fn forced_selector() -> Option<u8> {
    use std::sync::OnceLock;
    static SEL: OnceLock<Option<u8>> = OnceLock::new();
    *SEL.get_or_init(|| std::env::var("PVH_FUZZ_SEL").ok().and_then(|s| s.parse().ok()))
}

fuzz_target!(|data: &[u8]| {
    if data.is_empty() {
        return;
    }
    let (mut sel, input) = (data[0], &data[1..]);
    // the driver can pin the oracle (one property family per run)
    if let Some(forced) = forced_selector() {
        sel = forced;
    }
    let text = String::from_utf8_lossy(input);
    match sel % 8 {
        0 => dewey_pair(&text),
        1 => alternation(&text),
        2 => glob_or_plain(&text),
        3 => stream(input),
        4 => plist(input),
        5 => digests(input),
        6 => scanindex(input),
        _ => {
            // distinfo: writing a parsed file gives a canonical file, which round-trips
            let d = pkgsrc::distinfo::Distinfo::from_bytes(input);
            if d.distfiles().iter().chain(d.patchfiles().iter()).any(|e| e.filename.as_os_str().is_empty()) {
                return;
            }
            let y = d.as_bytes();
            let z = pkgsrc::distinfo::Distinfo::from_bytes(&y).as_bytes();
            if y != z {
                panic!("ORACLE C10: canonical text written by as_bytes() does not round-trip");
            }
        }
    }
});
