#!/bin/sh
# Build the harness (release + overflow-checking debug) from files on disk only.
set -e
cd "$(dirname "$0")/harness"
export CARGO_NET_OFFLINE=true
cargo build --release --offline 2>&1 | tail -2
cargo build --offline 2>&1 | tail -2
