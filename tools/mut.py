#!/usr/bin/env python3
"""Mutation trials against a scratch copy of /repo (never /repo itself).

  tools/mut.py <spec.py> [name-filter]

spec.py defines MUTS = [ (name, file, old, new, [props...]) , ... ].  For each
mutation the scratch copy /tmp/mut-repo is restored from /repo, the edit is
applied (old must occur exactly once unless new is a callable), the existing
test-suite is run on the copy (must still pass, otherwise the mutation is not
'realistic' and is reported as such), and `VERIF_REPO=/tmp/mut-repo ./check P
quick` is run for each listed property.  Prints one line per (mutation,
property): CAUGHT / MISSED / INCONCLUSIVE.  The scratch copy and its build
output are removed at the end unless KEEP=1.
"""
import importlib.util, os, shutil, subprocess, sys, time

ROOT = os.path.dirname(os.path.dirname(os.path.abspath(__file__)))
SCR = os.environ.get("MUT_DIR", "/tmp/mut-repo")


def sh(cmd, **kw):
    return subprocess.run(cmd, shell=True, stdout=subprocess.PIPE, stderr=subprocess.STDOUT, text=True, **kw)


def restore():
    os.makedirs(SCR, exist_ok=True)
    sh(f"rsync -a --delete --exclude target --exclude .git /repo/ {SCR}/")


def main():
    spec = importlib.util.spec_from_file_location("spec", sys.argv[1])
    mod = importlib.util.module_from_spec(spec)
    spec.loader.exec_module(mod)
    flt = sys.argv[2] if len(sys.argv) > 2 else ""
    env = dict(os.environ, VERIF_REPO=SCR, CARGO_NET_OFFLINE="true", VERIF_TARGET_BASE="/tmp/mut-lead-tb")
    os.makedirs("/tmp/mut-lead-tb", exist_ok=True)
    tier = os.environ.get("MUT_TIER", "quick")
    results = []
    for (name, file, old, new, props) in mod.MUTS:
        if flt and flt not in name:
            continue
        restore()
        path = os.path.join(SCR, file)
        src = open(path).read()
        if callable(new):
            out = new(src)
        else:
            if src.count(old) != 1:
                print(f"{name}: SPEC-ERROR old text occurs {src.count(old)} times")
                continue
            out = src.replace(old, new)
        open(path, "w").write(out)
        t = sh("cargo test --offline --lib --tests 2>&1 | grep -E '^test result|error(\\[|:)' | head", cwd=SCR,
               env=dict(env, CARGO_TARGET_DIR="/tmp/mut-repo-target"))
        tests_ok = "FAILED" not in t.stdout and "failed" not in t.stdout.replace("0 failed", "") and "error" not in t.stdout
        for p in props:
            t0 = time.time()
            r = sh(f"./check {p} {tier}", cwd=ROOT, env=env)
            verdict = {0: "MISSED", 1: "CAUGHT", 2: "INCONCLUSIVE"}.get(r.returncode, f"rc={r.returncode}")
            first = next((l for l in r.stdout.splitlines() if l.startswith("  [")), "")
            detail = next((l for l in r.stdout.splitlines() if l.startswith("      ")), "")
            print(f"{name:40s} {p} {verdict:12s} tests={'pass' if tests_ok else 'FAIL'} {time.time()-t0:5.1f}s {first.strip()[:110]}", flush=True)
            if verdict != "CAUGHT":
                print("    " + "\n    ".join(r.stdout.splitlines()[-4:]))
            elif os.environ.get("VERBOSE"):
                print("    " + detail.strip()[:300])
            results.append((name, p, verdict, tests_ok))
    if not os.environ.get("KEEP"):
        shutil.rmtree(SCR, ignore_errors=True)
        shutil.rmtree("/tmp/mut-repo-target", ignore_errors=True)
        shutil.rmtree("/tmp/mut-lead-tb", ignore_errors=True)
    missed = [r for r in results if r[2] != "CAUGHT"]
    print(f"{len(results)} trials, {len(missed)} not caught")


if __name__ == "__main__":
    main()
