#!/usr/bin/env python3
"""Confirm a seeded change and run the checks against it.

  tools/seedtest.py <out-dir> <i> <PROP> [more PROPs...]   (e.g. /tmp/seed-C01-out 1 C01)

In a scratch copy of /repo (never /repo itself):
  1. demo<i>.rs passes on the unchanged tree;
  2. patch<i>.diff applies, the crate builds, the existing suite passes unedited;
  3. demo<i>.rs fails with the change;
  4. `VERIF_REPO=<scratch> ./check P quick` (and thorough when MUT_TIER=thorough or quick
     misses) for each listed property.
Confirmed changes are stored as /verif/seeded/<PROP>-<i>/ (patch.diff, demo.rs, meta.json).
"""
import json
import os
import shutil
import subprocess
import sys
import time

ROOT = os.path.dirname(os.path.dirname(os.path.abspath(__file__)))


def sh(cmd, **kw):
    return subprocess.run(cmd, shell=True, stdout=subprocess.PIPE, stderr=subprocess.STDOUT, text=True, **kw)


def main():
    out, i, props = sys.argv[1], sys.argv[2], sys.argv[3:]
    tag = f"{props[0]}-{int(i) + int(os.environ.get('SEED_ID_OFFSET', '0'))}"
    scr = f"/tmp/seedtest-{tag}"
    tb = f"/tmp/seedtest-{tag}-tb"
    patch = os.path.join(out, f"patch{i}.diff")
    demo = os.path.join(out, f"demo{i}.rs")
    meta_in = os.path.join(out, f"meta{i}.json")
    for f in (patch, demo):
        if not os.path.exists(f):
            print(f"{tag}: missing {f}")
            return 2
    shutil.rmtree(scr, ignore_errors=True)
    sh(f"rsync -a --exclude target --exclude .git /repo/ {scr}/")
    env = dict(os.environ, CARGO_NET_OFFLINE="true", CARGO_TARGET_DIR=f"{tb}/repo-target")
    shutil.copy(demo, f"{scr}/tests/seed_demo.rs")
    r = sh("cargo test --offline --test seed_demo 2>&1 | tail -15", cwd=scr, env=env)
    demo_ok_before = "test result: ok" in r.stdout
    a = sh(f"patch -p1 --no-backup-if-mismatch < {patch}", cwd=scr)
    applied = a.returncode == 0
    r2 = sh("cargo test --offline --test seed_demo 2>&1 | tail -25", cwd=scr, env=env)
    demo_fails_after = "test result: FAILED" in r2.stdout or "panicked" in r2.stdout
    os.remove(f"{scr}/tests/seed_demo.rs")
    r3 = sh("cargo test --offline 2>&1 | grep -E '^test result|^error|warning: unused' ", cwd=scr, env=env)
    suite_ok = applied and "FAILED" not in r3.stdout and "error" not in r3.stdout and r3.stdout.count("test result: ok") >= 4
    print(f"{tag}: demo_passes_before={demo_ok_before} patch_applies={applied} suite_passes={suite_ok} demo_fails_after={demo_fails_after}")
    if not (demo_ok_before and applied and suite_ok and demo_fails_after):
        print(r.stdout[-600:], a.stdout[-600:], r2.stdout[-900:], r3.stdout[-600:], sep="\n---\n")
        shutil.rmtree(scr, ignore_errors=True)
        shutil.rmtree(tb, ignore_errors=True)
        return 3
    ran = []
    cenv = dict(os.environ, VERIF_REPO=scr, VERIF_TARGET_BASE=tb, CARGO_NET_OFFLINE="true")
    tiers = ["quick"] + (["thorough"] if os.environ.get("MUT_TIER") == "thorough" else [])
    for p in props:
        for tier in tiers:
            t0 = time.time()
            c = sh(f"./check {p} {tier}", cwd=ROOT, env=cenv)
            verdict = {0: "MISSED", 1: "CAUGHT", 2: "INCONCLUSIVE"}.get(c.returncode, f"rc={c.returncode}")
            first = next((l.strip() for l in c.stdout.splitlines() if l.startswith("  [")), "")
            detail = next((l.strip() for l in c.stdout.splitlines() if l.startswith("      ")), "")
            print(f"{tag}: {p}/{tier} {verdict} {time.time()-t0:.0f}s {first[:160]}")
            if verdict != "CAUGHT":
                print("    " + "\n    ".join(c.stdout.splitlines()[-3:]))
            ran.append({"cmd": f"VERIF_REPO=<scratch copy with patch> ./check {p} {tier}", "verdict": verdict,
                        "witness": first[:300], "observation": detail[:400]})
            if verdict == "CAUGHT":
                break
    dest = os.path.join(ROOT, "seeded", tag)
    os.makedirs(dest, exist_ok=True)
    shutil.copy(patch, os.path.join(dest, "patch.diff"))
    shutil.copy(demo, os.path.join(dest, "demo.rs"))
    meta = json.load(open(meta_in)) if os.path.exists(meta_in) else {}
    meta.update({"id": tag, "property": props[0], "confirmed": {
        "demo_passes_on_unchanged_tree": demo_ok_before, "patch_applies": applied,
        "existing_suite_passes_with_change": suite_ok, "demo_fails_with_change": demo_fails_after},
        "checks_run": ran, "origin": "independent sub-agent given only the property text and a scratch worktree"})
    json.dump(meta, open(os.path.join(dest, "meta.json"), "w"), indent=1)
    shutil.rmtree(scr, ignore_errors=True)
    shutil.rmtree(tb, ignore_errors=True)
    import hashlib
    shutil.rmtree(os.path.join(ROOT, "work", "alt-" + hashlib.sha1(os.path.abspath(scr).encode()).hexdigest()[:10]), ignore_errors=True)
    return 0


if __name__ == "__main__":
    sys.exit(main())
