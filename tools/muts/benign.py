"""Semantics-preserving edits: every check must stay SILENT (verdict MISSED is the
wanted outcome here)."""
MUTS = [
 ("benign-summary-insert", "src/summary.rs", '''        match self.entries.entry(var) {
            std::collections::hash_map::Entry::Occupied(mut entry) => {
                *entry.get_mut() = val;
            }
            std::collections::hash_map::Entry::Vacant(entry) => {
                entry.insert(val);
            }
        }''', '''        self.entries.insert(var, val);''', ["C07", "C08", "C09"]),
 ("benign-distinfo-strict-eq-field", "src/distinfo.rs", '''                /* Record size or hash */
                if field == 3 {''', '''                /* The third field must be "=" */
                if field == 2 && s != b"=" {
                    return Line::None;
                }
                /* Record size or hash */
                if field == 3 {''', ["C10", "C11", "C12"]),
 ("benign-dewey-modifier-order", "src/dewey.rs", '''            if slice.starts_with("alpha") {
                version.push(-3);
                idx += 5;
                continue;
            } else if slice.starts_with("beta") {
                version.push(-2);
                idx += 4;
                continue;
            }''', '''            if slice.starts_with("beta") {
                version.push(-2);
                idx += 4;
                continue;
            } else if slice.starts_with("alpha") {
                version.push(-3);
                idx += 5;
                continue;
            }''', ["C01", "C03"]),
 ("benign-pattern-no-shortcut", "src/pattern.rs", '''        if !self.likely && !Self::quick_pkg_match(&self.pattern, pkg) {
            return false;
        }''', '''        if !self.likely && !Self::quick_pkg_match(&self.pattern, pkg) && pkg.len() > usize::MAX / 2 {
            return false;
        }''', ["C02", "C04", "C05", "C06"]),
 ("benign-plist-byte-slash", "src/plist.rs", '''                        if !path.to_string_lossy().ends_with('/') {''', '''                        if path.as_bytes().last() != Some(&b'/') {''', ["C15"]),
 ("benign-plist-extra-field", "src/plist.rs", None, None, ["C14", "C15"]),
 ("benign-pkgdb-sorted", "src/pkgdb.rs", None, None, ["C20"]),
 ("benign-pkgpath-normalised", "src/pkgpath.rs", '''                    let mut f = PathBuf::from("../../");
                    f.push(p.clone());
                    Ok(PkgPath { short: p, full: f })''', '''                    let p: PathBuf = c.iter().map(|x| x.as_os_str()).collect();
                    let mut f = PathBuf::from("../../");
                    f.push(p.clone());
                    Ok(PkgPath { short: p, full: f })''', ["C19", "C16"]),
 ("benign-digest-manual-loop", "src/digest.rs", '''    std::io::copy(reader, &mut hasher)?;''', '''    let mut buf = [0u8; 4096];
    loop {
        match reader.read(&mut buf) {
            Ok(0) => break,
            Ok(n) => hasher.update(&buf[..n]),
            Err(e) if e.kind() == std::io::ErrorKind::Interrupted => continue,
            Err(e) => return Err(e.into()),
        }
    }''', ["C13", "C12"]),
 ("benign-distinfo-size-err-name", "src/distinfo.rs", '''                return Err(DistinfoError::Size(
                    self.filename.clone(),''', '''                return Err(DistinfoError::Size(
                    path.as_ref().to_path_buf(),''', ["C12"]),
 ("benign-metadata-table-loop", "src/metadata.rs", None, None, ["C20"]),
 ("benign-scanindex-vec-buffer", "src/scanindex.rs", None, None, ["C16"]),
 ("benign-plist-err-kind", "src/plist.rs", '''                    Some(_) => {
                        Err(PlistError::UnsupportedCommand(OsString::from(cmd)))
                    }''', '''                    Some(_) => {
                        Err(PlistError::IncorrectArguments(OsString::from(line)))
                    }''', ["C14"]),
 ("benign-pkgname-split", "src/pkgname.rs", '''        let (pkgbase, pkgversion) = match pkgname.rsplit_once('-') {
            Some((b, v)) => (String::from(b), String::from(v)),
            None => (String::from(pkgname), String::from("")),
        };''', '''        let (pkgbase, pkgversion) = match pkgname.rfind('-') {
            Some(i) => (pkgname[..i].to_string(), pkgname[i + 1..].to_string()),
            None => (pkgname.to_string(), String::new()),
        };''', ["C18", "C06"]),
]

def _extra_field(src):
    src = src.replace('''pub struct Plist {
    entries: Vec<PlistEntry>,
}''', '''pub struct Plist {
    entries: Vec<PlistEntry>,
    lines: Vec<usize>,
}''')
    src = src.replace('''            plist
                .entries
                .push(PlistEntry::from_bytes(&bytes[start..end])?);''', '''            plist
                .entries
                .push(PlistEntry::from_bytes(&bytes[start..end])?);
            plist.lines.push(end - start);''')
    return src

def _pkgdb_sorted(src):
    # iterate over a sorted snapshot of the directory instead of the raw ReadDir order
    src = src.replace('''    readdir: Option<ReadDir>,''', '''    readdir: Option<ReadDir>,
    sorted: Option<std::vec::IntoIter<std::io::Result<fs::DirEntry>>>,''')
    src = src.replace('''            readdir: None,
        };''', '''            readdir: None,
            sorted: None,
        };''')
    src = src.replace('''            db.readdir = Some(fs::read_dir(&db.path).expect("fail"));''', '''            db.readdir = Some(fs::read_dir(&db.path).expect("fail"));
            let mut v: Vec<std::io::Result<fs::DirEntry>> = fs::read_dir(&db.path).expect("fail").collect();
            v.sort_by_key(|e| e.as_ref().map(|d| d.file_name()).unwrap_or_default());
            v.reverse();
            db.sorted = Some(v.into_iter());''')
    src = src.replace('''                match self.readdir.as_mut().expect("Bad pkgdb read").next()? {''', '''                let _ = self.readdir.as_mut().expect("Bad pkgdb read");
                match self.sorted.as_mut().expect("Bad pkgdb read").next()? {''')
    return src

def _meta_loop(src):
    a = src.index('    pub fn from_filename(file: &str) -> Option<MetadataEntry> {')
    b = src.index('    }\n}', a)
    new = '''    pub fn from_filename(file: &str) -> Option<MetadataEntry> {
        let all = [
            MetadataEntry::BuildInfo, MetadataEntry::BuildVersion, MetadataEntry::Comment,
            MetadataEntry::Contents, MetadataEntry::DeInstall, MetadataEntry::Desc,
            MetadataEntry::Display, MetadataEntry::Install, MetadataEntry::InstalledInfo,
            MetadataEntry::MtreeDirs, MetadataEntry::Preserve, MetadataEntry::RequiredBy,
            MetadataEntry::SizeAll, MetadataEntry::SizePkg,
        ];
        all.into_iter().find(|e| e.to_filename() == file)
'''
    return src[:a] + new + src[b:]

def _scan_vec(src):
    src = src.replace('''        let mut buffer = String::new();''', '''        let mut buffer: Vec<String> = vec![];''')
    src = src.replace('''                indexes.push(Self::str_to_index(&buffer)?);
                buffer.clear();
            }
            buffer.push_str(line);
            buffer.push('\\n');''', '''                indexes.push(Self::str_to_index(&buffer.join("\\n"))?);
                buffer.clear();
            }
            buffer.push(line.to_string());''')
    src = src.replace('''            indexes.push(Self::str_to_index(&buffer)?);
        }

        Ok(indexes)''', '''            indexes.push(Self::str_to_index(&buffer.join("\\n"))?);
        }

        Ok(indexes)''')
    return src

_F = {"benign-plist-extra-field": _extra_field, "benign-pkgdb-sorted": _pkgdb_sorted,
      "benign-metadata-table-loop": _meta_loop, "benign-scanindex-vec-buffer": _scan_vec}
MUTS = [(n, f, o, _F.get(n, w), p) for (n, f, o, w, p) in MUTS]
