D='src/dewey.rs'; P='src/pattern.rs'
MUTS = [
 # --- C01
 ("c01-revert-pre", D, '''            } else if slice.starts_with("pre") {
                version.push(-1);
                idx += 3;
                continue;
''', '', ["C01"]),
 ("c01-revert-lowercase", D, 'let s = &s.to_ascii_lowercase();', 'let s = &s.to_string();', ["C01"]),
 ("c01-beta-weight", D, 'version.push(-2);', 'version.push(-1);', ["C01"]),
 ("c01-underscore-dropped", D, "if c == '.' || c == '_' {", "if c == '.' {", ["C01"]),
 ("c01-pl-as-letters", D, '''            } else if slice.starts_with("pl") {
                version.push(0);
                idx += 2;
                continue;
            }''', '''            }''', ["C01"]),
 ("c01-first-nb-wins", D, 'pkgrevision = nbstr.parse::<i64>().unwrap_or(0);', 'if pkgrevision == 0 { pkgrevision = nbstr.parse::<i64>().unwrap_or(0); }', ["C01"]),
 ("c01-pad-less-off-by-one", D, 'for i in llen..rlen {', 'for i in llen + 1..rlen {', ["C01", "C03"]),
 ("c01-pad-greater-sign", D, 'return dewey_test(lhs.version[i], op, 0);', 'return dewey_test(0, op, lhs.version[i]);', ["C01", "C03"]),
 ("c01-greater-skips-revision", D, '''            return dewey_test(lhs.pkgrevision, op, rhs.pkgrevision);
        }
        Ordering::Equal => {}''', '''            return dewey_test(0, op, 0);
        }
        Ordering::Equal => {}''', ["C01", "C03"]),
 ("c01-op-row-swapped", D, 'DeweyOp::GE => lhs >= rhs,', 'DeweyOp::GE => lhs > rhs,', ["C01", "C03"]),
 ("c01-bestmatch-names", P, 'if dewey_cmp(&d1, &DeweyOp::GT, &d2) {', 'if pkg1 > pkg2 && dewey_cmp(&d1, &DeweyOp::GE, &d2) {', ["C01", "C06"]),
 ("c01-letter-uppercase-offset", D, 'version.push(c as i64);', 'version.push(c as i64 + if c == \'z\' { 1 } else { 0 });', ["C01"]),
 # --- C02
 ("c02-base-starts-with", D, 'if v[1] != self.pkgname {', 'if !v[1].starts_with(&self.pkgname) {', ["C02"]),
 ("c02-base-ends-with", D, 'if v[1] != self.pkgname {', 'if !v[1].ends_with(&self.pkgname) {', ["C02"]),
 ("c02-split-first-dash", D, "let v: Vec<&str> = pkg.rsplitn(2, '-').collect();", "let v: Vec<&str> = { let mut t: Vec<&str> = pkg.splitn(2, '-').collect(); t.reverse(); t };", ["C02"]),
 ("c02-only-first-bound", D, '''        for m in &self.matches {
            if !dewey_cmp(&pkgver, &m.op, &m.version) {
                return false;
            }
        }''', '''        if let Some(m) = self.matches.first() {
            if !dewey_cmp(&pkgver, &m.op, &m.version) {
                return false;
            }
        }''', ["C02", "C03"]),
 ("c02-any-bound", D, '''        for m in &self.matches {
            if !dewey_cmp(&pkgver, &m.op, &m.version) {
                return false;
            }
        }
        true''', '''        self.matches.iter().any(|m| dewey_cmp(&pkgver, &m.op, &m.version))''', ["C02", "C03"]),
 ("c02-three-ops-accepted", D, '''            3.. => {
                return Err(DeweyError {
                    pos: deweyops[2].0,
                    msg: "Too many dewey operators found",
                })
            }''', '''            3 if pattern.len() > 12 => {
                let p = &pattern[deweyops[0].1..deweyops[1].0];
                matches.push(DeweyMatch::new(&deweyops[0].2, p)?);
            }
            _ => {
                return Err(DeweyError {
                    pos: deweyops[2].0,
                    msg: "Too many dewey operators found",
                })
            }''', ["C02"]),
 ("c02-order-check-loosened", D, '(DeweyOp::GT | DeweyOp::GE, DeweyOp::LT | DeweyOp::LE) => {}', '(DeweyOp::GT | DeweyOp::GE, DeweyOp::LT | DeweyOp::LE) => {}\n                    (DeweyOp::LE, DeweyOp::GE) => {}', ["C02"]),
 ("c02-slice-off-by-one", D, 'let p = &pattern[deweyops[0].1..deweyops[1].0];', 'let p = &pattern[deweyops[0].1..deweyops[1].0.saturating_sub(1).max(deweyops[0].1)];', ["C02", "C03"]),
 ("c02-pattern-dispatch-gt-only", P, "if pattern.contains('>') || pattern.contains('<') {", "if pattern.contains('>') || pattern.contains(\"<=\") {", ["C02", "C05"]),
 # --- C04
 ("c04-revert-fix-firstbrace", P, None, None, ["C04"]),
 ("c04-comma-ignores-depth", P, "',' if depth == 1 => {", "',' if depth >= 1 => {", ["C04"]),
 ("c04-only-first-alt", P, '''                if pat.matches(pkg) {
                    return true;
                }
            }
        }
        false''', '''                return pat.matches(pkg);
            }
        }
        false''', ["C04"]),
 ("c04-empty-alt-dropped", P, 'for m in alts {', 'for m in alts.into_iter().filter(|m| !m.is_empty()) {', ["C04"]),
 ("c04-balance-count-only", P, '''                } else if ch == '}' && stack.pop().is_none() {
                    return Err(PatternError::Alternate);
                }''', '''                } else if ch == '}' {
                    closes += 1;
                }''', ["C04"]),
 ("c04-inner-error-matches", P, '''            if let Ok(pat) = Pattern::new(&fmt) {
                if pat.matches(pkg) {
                    return true;
                }
            }''', '''            match Pattern::new(&fmt) {
                Ok(pat) => {
                    if pat.matches(pkg) {
                        return true;
                    }
                }
                Err(PatternError::Glob(_)) => return fmt.starts_with(pkg),
                Err(_) => {}
            }''', ["C04"]),
 # --- C05
 ("c05-dispatch-forgets-qmark", P, "            || pattern.contains('?')\n", "", ["C05"]),
 ("c05-dispatch-forgets-closebracket", P, "            || pattern.contains(']')\n", "", ["C05"]),
 ("c05-shortcut-second-char", P, '''        p = p1.next();
        if p.is_none() || !Self::is_simple_char(p.unwrap()) {
            return true;
        }
        if p != p2.next() {
            return false;
        }
        true''', '''        p = p1.next();
        if p.is_none() {
            return true;
        }
        if p != p2.next() {
            return false;
        }
        true''', ["C05"]),
 ("c05-shortcut-dot-simple", P, "c.is_ascii_alphanumeric() || c == '-'", "c.is_ascii_alphanumeric() || c == '-' || c == '?'", ["C05"]),
 ("c05-simple-starts-with", P, 'PatternType::Simple => self.pattern == pkg,', 'PatternType::Simple => pkg.starts_with(&self.pattern),', ["C05"]),
 ("c05-glob-case-insensitive", P, 'glob.matches(pkg)', 'glob.matches_with(pkg, glob::MatchOptions { case_sensitive: false, require_literal_separator: false, require_literal_leading_dot: false })', ["C05"]),
 ("c05-glob-prefix-match", P, 'glob.matches(pkg)', 'glob.matches(pkg) || (pkg.len() > 1 && glob.matches(&pkg[..pkg.len() - pkg.chars().last().unwrap().len_utf8()]) && self.pattern.ends_with(\'*\') == false && pkg.ends_with(\'1\'))', ["C05"]),
 # --- C06
 ("c06-tiebreak-reversed", P, '} else if pkg1 < pkg2 {', '} else if pkg1 > pkg2 {', ["C06"]),
 ("c06-tiebreak-dropped", P, '''                } else if pkg1 < pkg2 {
                    Some(pkg1)
                } else {
                    Some(pkg2)
                }''', '''                } else {
                    Some(pkg1)
                }''', ["C06"]),
 ("c06-ge-instead-of-gt", P, 'if dewey_cmp(&d1, &DeweyOp::GT, &d2) {', 'if dewey_cmp(&d1, &DeweyOp::GE, &d2) {', ["C06"]),
 ("c06-version-after-first-dash", P, 'let d1 = DeweyVersion::new(PkgName::new(pkg1).pkgversion());', 'let d1 = DeweyVersion::new(pkg1.split_once(\'-\').map(|x| x.1).unwrap_or(""));', ["C06"]),
 ("c06-none-when-second-only", P, '(false, true) => Some(pkg2),', '(false, true) => if pkg2.len() > 12 { None } else { Some(pkg2) },', ["C06"]),
]

def _revert_alt(src):
    a = src.index('    fn alternate_match(pattern: &str, pkg: &str) -> bool {')
    b = src.index('    /**\n     * pkg_install contains a quick_pkg_match()')
    old = """    fn alternate_match(pattern: &str, pkg: &str) -> bool {
        for (i, _) in
            pattern.match_indices('{').collect::<Vec<_>>().iter().rev()
        {
            let (first, rest) = pattern.split_at(*i);
            /* This shouldn't fail as new() already verified, but... */
            let Some(n) = rest.find('}') else {
                return false;
            };
            let (matches, last) = rest.split_at(n + 1);
            let matches = &matches[1..matches.len() - 1];

            for m in matches.split(',') {
                let fmt = format!("{}{}{}", first, m, last);
                if let Ok(pat) = Pattern::new(&fmt) {
                    if pat.matches(pkg) {
                        return true;
                    }
                }
            }
        }
        false
    }

"""
    return src[:a] + old + src[b:]

def _balance_count(src):
    src = src.replace('''                } else if ch == '}' && stack.pop().is_none() {
                    return Err(PatternError::Alternate);
                }''', '''                } else if ch == '}' {
                    closes += 1;
                }''')
    src = src.replace("            let mut stack = vec![];\n", "            let mut stack = vec![];\n            let mut closes = 0;\n")
    src = src.replace("            if !stack.is_empty() {\n                return Err(PatternError::Alternate);", "            if stack.len() != closes {\n                return Err(PatternError::Alternate);")
    return src

MUTS = [(n, f, o, (_revert_alt if n == "c04-revert-fix-firstbrace" else _balance_count if n == "c04-balance-count-only" else w), p) for (n, f, o, w, p) in MUTS]
