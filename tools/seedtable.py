#!/usr/bin/env python3
"""Print the DESIGN.md table rows for one round of seeded changes.

usage: tools/seedtable.py <round>
Reads seeded/*/meta.json (fields round, first_run, summary, checks_run)."""
import glob, json, os, sys

def main():
    rnd = int(sys.argv[1])
    here = os.path.dirname(os.path.dirname(os.path.abspath(__file__)))
    rows = []
    for p in sorted(glob.glob(os.path.join(here, "seeded", "*", "meta.json"))):
        m = json.load(open(p))
        if m.get("round") != rnd:
            continue
        sid = m["id"]
        prop, k = sid.split("-")
        s = " ".join(m["summary"].split()).replace("|", "/")
        if len(s) > 190:
            s = s[:187] + "..."
        last = m["checks_run"][-1]
        now = "`%s quick` %s" % (prop, last["verdict"].lower())
        rows.append((prop, int(k), "| %s | %s | %s | %s |" % (sid, s, m.get("first_run", "?"), now)))
    print("| id | change (author's summary) | blind first run | now |")
    print("|---|---|---|---|")
    for _, _, r in sorted(rows):
        print(r)

main()
