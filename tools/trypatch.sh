#!/bin/sh
# tools/trypatch.sh <patch.diff> <PROP> [tier]  - run one check against a scratch copy of /repo
# with the patch applied (never touches /repo).  Prints CAUGHT / MISSED / INCONCLUSIVE.
set -u
patch=$1; prop=$2; tier=${3:-quick}
tag=$(echo "$patch-$prop" | md5sum | cut -c1-10)
scr=/tmp/trypatch-$tag; tb=/tmp/trypatch-$tag-tb
rm -rf "$scr"; mkdir -p "$scr" "$tb"
rsync -a --exclude target --exclude .git /repo/ "$scr"/
( cd "$scr" && patch -p1 --no-backup-if-mismatch < "$patch" >/dev/null ) || { echo "patch failed"; exit 3; }
cd "$(dirname "$0")/.."
VERIF_REPO=$scr VERIF_TARGET_BASE=$tb CARGO_NET_OFFLINE=true ./check "$prop" "$tier" > "$tb/out.txt" 2>&1
rc=$?
case $rc in 0) v=MISSED;; 1) v=CAUGHT;; 2) v=INCONCLUSIVE;; *) v="rc=$rc";; esac
echo "$prop/$tier $v: $(grep -m1 '^  \[' "$tb/out.txt" | cut -c1-300)"
[ "$v" = CAUGHT ] || tail -n 3 "$tb/out.txt"
rm -rf "$scr" "$tb" "work/alt-$(printf %s "$scr" | sha1sum | cut -c1-10)"
