"""Per-property plans: which engines run which tier with how many shards,
the non-triviality rule, assumptions and unexplored zones (DESIGN.md 5)."""

R, D, M, A, V, T = "release", "debug", "miri", "asan", "valgrind", "mt"


def stages(quick, thorough):
    return {"quick": quick, "thorough": thorough}


PLANS = {}
NOT_YET = {}


def _load():
    import glob, importlib.util, os
    here = os.path.join(os.path.dirname(os.path.abspath(__file__)), "plans")
    for f in sorted(glob.glob(os.path.join(here, "c[0-9]*.py"))):
        name = os.path.basename(f)[:-3]
        spec = importlib.util.spec_from_file_location("plans_" + name, f)
        mod = importlib.util.module_from_spec(spec)
        spec.loader.exec_module(mod)
        if getattr(mod, "PLAN", None):
            PLANS[name.upper()] = mod.PLAN
        if getattr(mod, "NOT_APPLICABLE", None):
            NOT_YET[name.upper()] = mod.NOT_APPLICABLE


_load()
