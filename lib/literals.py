"""Dictionary of the string literals of the library under test.

A change that teaches the library a new special token ("patchlevel", "IGNORE",
"${PLIST.", "pkg-vulnerabilities", "@mtree", ".tgz") carries that token in its
source.  Before the shards of a check start, the driver extracts every string,
byte-string and character literal from `<repo>/src/*.rs` (comments removed)
and writes them to `<outdir>/literals.txt`; the harness mixes them into its
generators as it does its own dictionaries - the expected results still come
from the reference models, so a literal that means nothing costs nothing.
This is the static analogue of a fuzzer's dictionary taken from the binary.

File format: one literal per line, `<file stem> <hex of the bytes>`."""
import glob
import os
import re

_ESC = {"n": "\n", "t": "\t", "r": "\r", "0": "\0", "\\": "\\", '"': '"', "'": "'"}


def _unescape(s):
    out = bytearray()
    i = 0
    while i < len(s):
        c = s[i]
        if c != "\\" or i + 1 >= len(s):
            out.extend(c.encode("utf-8"))
            i += 1
            continue
        n = s[i + 1]
        if n in _ESC:
            out.extend(_ESC[n].encode("utf-8"))
            i += 2
        elif n == "x" and i + 3 < len(s) + 0:
            try:
                out.append(int(s[i + 2:i + 4], 16))
            except ValueError:
                out.extend(b"\\x")
            i += 4
        elif n == "u":
            m = re.match(r"\{([0-9a-fA-F]{1,6})\}", s[i + 2:])
            if m:
                try:
                    out.extend(chr(int(m.group(1), 16)).encode("utf-8"))
                except (ValueError, OverflowError):
                    pass
                i += 2 + m.end()
            else:
                i += 2
        elif n == "\n":
            # line continuation: skip the newline and leading blanks
            i += 2
            while i < len(s) and s[i] in " \t\n":
                i += 1
        else:
            out.extend(("\\" + n).encode("utf-8"))
            i += 2
    return bytes(out)


def _strip_comments(text):
    # block comments (also nested doc comments), then line comments outside strings (roughly)
    text = re.sub(r"/\*.*?\*/", " ", text, flags=re.S)
    out = []
    for line in text.splitlines():
        # a '//' that is not inside a string literal on that line
        q = False
        i = 0
        cut = len(line)
        while i < len(line) - 1:
            ch = line[i]
            if ch == "\\":
                i += 2
                continue
            if ch == '"':
                q = not q
            elif not q and ch == "/" and line[i + 1] == "/":
                cut = i
                break
            i += 1
        out.append(line[:cut])
    return "\n".join(out)


def extract(repo):
    found = []
    seen = set()
    for f in sorted(glob.glob(os.path.join(repo, "src", "*.rs"))):
        stem = os.path.basename(f)[:-3]
        try:
            text = open(f, encoding="utf-8", errors="replace").read()
        except OSError:
            continue
        # only the library proper: drop the unit-test module at the end of the file
        m = re.search(r"#\[cfg\(test\)\]\s*mod\s+\w+", text)
        if m:
            text = text[:m.start()]
        text = _strip_comments(text)
        lits = []
        for m in re.finditer(r'b?"((?:[^"\\]|\\.)*)"', text, flags=re.S):
            lits.append(_unescape(m.group(1)))
        for m in re.finditer(r"b?'((?:[^'\\]|\\.){1,10})'", text):
            b = _unescape(m.group(1))
            if 1 <= len(b) <= 4:
                lits.append(b)
        for b in lits:
            if not (1 <= len(b) <= 48) or b"\n" in b:
                continue
            # format strings: also the pieces around the placeholders
            pieces = [b] + [p for p in re.split(rb"\{[^}]*\}", b) if p and p != b]
            for p in pieces:
                p = p.strip(b" ")
                if not p or (stem, p) in seen:
                    continue
                seen.add((stem, p))
                found.append((stem, p))
    return found


def write(repo, outdir):
    lits = extract(repo)
    path = os.path.join(outdir, "literals.txt")
    with open(path, "w") as fh:
        for stem, b in lits:
            fh.write(f"{stem} {b.hex()}\n")
    return len(lits)


if __name__ == "__main__":
    import sys
    for stem, b in extract(sys.argv[1] if len(sys.argv) > 1 else "/repo"):
        print(stem, b)
