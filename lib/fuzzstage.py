"""libFuzzer stage for C17 (thorough tier): coverage-guided inputs for every
byte/str entry point, seeded from /verif/corpus.  A crash artifact is a
violation; a timeout/oom artifact only counts after it fails again when
re-run alone with a 60 s limit (otherwise it is reported as inconclusive)."""
import glob
import os
import re
import shutil
import subprocess
import time

SECONDS = int(os.environ.get("VERIF_FUZZ_SECONDS", "120"))


def _env():
    env = dict(os.environ)
    env["CARGO_NET_OFFLINE"] = "true"
    env.pop("RUSTFLAGS", None)
    return env


def _seed_corpus(root, cdir):
    os.makedirs(cdir, exist_ok=True)
    c = os.path.join(root, "corpus")

    def put(sel, name, data):
        with open(os.path.join(cdir, f"seed-{sel}-{name}"), "wb") as f:
            f.write(bytes([sel]) + data)
    pats = open(os.path.join(c, "pkgdeps.txt"), "rb").read().splitlines()
    names = open(os.path.join(c, "pkgnames.txt"), "rb").read().splitlines()
    for i in range(0, len(pats), 400):
        put(0, f"pat{i}", pats[i] + b"\0" + names[(i * 7) % len(names)] + b"\0" + names[(i * 13) % len(names)])
    for p in pats:
        if b"{" in p:
            put(0, "alt%d" % (hash(p) & 0xffff), p + b"\0" + p.replace(b"{", b"").replace(b"}", b"") + b"\0x-1")
    for i in range(0, len(names), 2000):
        put(1, f"name{i}", names[i])
    put(2, "path", b"pat-[0-9]*:../../cat/pkg")
    put(3, "summary", b"BUILD_DATE=x\nCATEGORIES=c\nCOMMENT=c\nDESCRIPTION=d\nMACHINE_ARCH=m\nOPSYS=o\nOS_VERSION=1\nPKGNAME=p-1.0\nPKGPATH=c/p\nPKGTOOLS_VERSION=1\nSIZE_PKG=1\nFILE_SIZE=2\nDEPENDS=a>=1\n")
    put(4, "stream", b"\x07BUILD_DATE=x\nCATEGORIES=c\nCOMMENT=c\nDESCRIPTION=d\nMACHINE_ARCH=m\nOPSYS=o\nOS_VERSION=1\nPKGNAME=p-1.0\nPKGPATH=c/p\nPKGTOOLS_VERSION=1\nSIZE_PKG=1\n\n")
    put(5, "plist", b"@comment x\n@name p-1.0\n@cwd /opt\nbin/foo\nb\n@ignore\n+X\n@option preserve\n@mode 0644\n@exec true\n@unexec false\n@pkgdir d\n@dirrm e\n")
    for f in ("distinfo", "distinfo.bad", "distinfo.subdir"):
        put(6, f, open(os.path.join(c, f), "rb").read())
    idx = open(os.path.join(c, "pbulk-index.txt"), "rb").read()
    put(7, "scan", idx[:1800])
    put(8, "digest", b"SHA512")
    put(9, "hash", open(os.path.join(c, "patch-Makefile"), "rb").read())
    put(10, "meta", b"+SIZE_PKG")
    put(10, "meta2", b"1234\n")
    put(11, "calls", bytes(range(64)))


def _dict_file(work):
    """libFuzzer dictionary made of the library's own string literals (lib/literals.py)."""
    try:
        import literals
        path = os.path.join(work, "literals.dict")
        with open(path, "w") as fh:
            for _, b in literals.extract(os.environ.get("VERIF_REPO") or "/repo"):
                if len(b) <= 32:
                    fh.write('"' + "".join("\\x%02x" % c for c in b) + '"\n')
        return ["-dict=" + path]
    except Exception:
        return []


def fuzz(root, outdir, seed, tier):
    res = {"failures": [], "inconclusive": [], "coverage": {}}
    if os.environ.get("VERIF_REPO"):
        res["coverage"]["fuzz"] = "skipped: VERIF_REPO override is not supported by cargo-fuzz"
        return res
    hdir = os.path.join(root, "harness")
    work = os.path.join(outdir, "fuzz")
    shutil.rmtree(work, ignore_errors=True)
    cdir, adir = os.path.join(work, "corpus"), os.path.join(work, "artifacts")
    os.makedirs(adir, exist_ok=True)
    _seed_corpus(root, cdir)
    nseeds = len(os.listdir(cdir))
    b = subprocess.run(["cargo", "+nightly", "fuzz", "build", "all"], cwd=hdir, env=_env(),
                       stdout=subprocess.PIPE, stderr=subprocess.STDOUT, text=True)
    if b.returncode != 0:
        res["inconclusive"].append("fuzz target build failed: " + "\n".join(b.stdout.splitlines()[-15:]))
        return res
    t0 = time.time()
    jobs = os.cpu_count() or 4
    p = subprocess.run(["cargo", "+nightly", "fuzz", "run", "all", cdir, "--",
                        f"-artifact_prefix={adir}/", f"-max_total_time={SECONDS}", f"-seed={seed}",
                        "-timeout=10", "-max_len=2048", f"-fork={jobs}", "-ignore_crashes=1",
                        "-ignore_timeouts=1", "-ignore_ooms=1", "-use_value_profile=1"] + _dict_file(work),
                       cwd=hdir, env=_env(), stdout=subprocess.PIPE, stderr=subprocess.STDOUT, text=True,
                       timeout=SECONDS + 600)
    out = p.stdout
    stats = re.findall(r"#(\d+): cov: (\d+) ft: (\d+) corp: (\d+)", out)
    execs = cov = ft = corp = 0
    if stats:
        execs, cov, ft, corp = (int(x) for x in stats[-1])
    res["coverage"]["fuzz"] = {"seconds": round(time.time() - t0, 1), "executions": execs,
                               "coverage_edges": cov, "features": ft, "corpus_units": corp,
                               "seed_units": nseeds, "jobs": jobs, "seed": seed,
                               "entry_points": 12}
    if execs == 0:
        res["inconclusive"].append("fuzzer reported no executions: " + "\n".join(out.splitlines()[-10:]))
    exe = glob.glob(os.path.join(hdir, "fuzz", "target", "*", "release", "all"))
    for art in sorted(glob.glob(os.path.join(adir, "*"))):
        base = os.path.basename(art)
        data = open(art, "rb").read()
        desc = f"fuzz input ({len(data)} bytes, entry selector {data[0] % 12 if data else '-'}): {data[:200]!r}"
        if base.startswith("crash-"):
            res["failures"].append({"idx": 0, "kind": "fuzz-crash", "sig": None, "desc": desc,
                                    "msg": "libFuzzer crash artifact (panic/abort/ASan report)", "artifact": art})
        elif exe:
            try:
                rr = subprocess.run([exe[0], "-timeout=60", "-rss_limit_mb=4096", art], stdout=subprocess.PIPE,
                                    stderr=subprocess.STDOUT, timeout=120)
                bad = rr.returncode != 0
            except subprocess.TimeoutExpired:
                bad = True
            if bad:
                res["failures"].append({"idx": 0, "kind": "fuzz-" + base.split("-")[0], "sig": None, "desc": desc,
                                        "msg": "input exceeds 60 s / 4 GiB when run alone", "artifact": art})
            else:
                res["inconclusive"].append(f"fuzzer flagged {base} under load but it completes when run alone")
    return res


def replay_artifact(root, artifact, target="all", sel=None):
    hdir = os.path.join(root, "harness")
    b = subprocess.run(["cargo", "+nightly", "fuzz", "build", target], cwd=hdir, env=_env(),
                       stdout=subprocess.PIPE, stderr=subprocess.STDOUT, text=True)
    if b.returncode != 0:
        return 2, b.stdout[-2000:]
    exe = glob.glob(os.path.join(hdir, "fuzz", "target", "*", "release", target))
    env = _env()
    if sel is not None:
        env["PVH_FUZZ_SEL"] = str(sel)
    rr = subprocess.run([exe[0], "-timeout=60", artifact], stdout=subprocess.PIPE, stderr=subprocess.STDOUT,
                        text=True, env=env)
    return (1 if rr.returncode != 0 else 0), rr.stdout[-3000:]


# ---------------------------------------------------------------------------
# Differential fuzzing: property oracles under coverage guidance (thorough)
# ---------------------------------------------------------------------------

DIFF_SECONDS = int(os.environ.get("VERIF_DIFF_FUZZ_SECONDS", "60"))

_DIFF_SEEDS = {
    0: [b"1.0alpha1\x001.0", b"2.5nb3\x002.5.0nb3", b"1.0rc1\x001.0pre1", b"20240101\x002097151", b"1.2.3.4.5.6.7\x001.2.3.4.5.6"],
    1: [b"{a,b}{c,d}-[0-9]*\x00ac-1", b"a-{b,c}-{d{e,f},g}-h>=1\x00a-b-de-h-2", b"p-1.0{,nb[0-9]*}\x00p-1.0nb2", b"{,lib}foo-{,lib}bar\x00libfoo-bar"],
    2: [b"foo-[0-9]*\x00foo-1.0", b"?oo-[!a-c]*.tgz\x00foo-d.tgz", b"foo-1.0\x00foo-1.0", b"*\x00", b"[a-z][0-9]\x00a1"],
    3: [b"\x02\x10\x40\xff2019-08-12\ndevel pkgtools\nA test \xc3\xa9\nx86_64\nDarwin\n18.7.0\ntestpkg-1.0\npkgtools/testpkg\n20091115\n"],
    4: [b"@comment x\n@name p-1.0\n@cwd /opt\nbin/foo\nb\n@ignore\n+X\n@option preserve\n\n  \n@mode 0644\n@exec true", b"\xef\xbb\xbf@name x\nfoo"],
    5: [b"\x00\x01\x07\xff\x20a\n$NetBSD: x $\nb\nlast", b"\x03\xff\xff\x00\x10--- a\n+++ b $NetBSD$\n"],
    6: [b"\x07PKGNAME=a-1\nALL_DEPENDS=b>=1:../../c/b\nPKG_LOCATION=c/a\nPKGNAME=b-2\nCATEGORIES=c\n"],
    7: [b"$NetBSD: distinfo,v 1.1 $\n\nSHA1 (f.tgz) = ab\nSize (f.tgz) = 1 bytes\nSHA1 (patch-aa) = cd\n"],
}


def diff_stage(sel, pid):
    """Factory: an `extra` stage that fuzzes oracle `sel` of the diff target
    and reports artifacts whose panic message names property `pid`."""

    def stage(root, outdir, seed, tier):
        res = {"failures": [], "inconclusive": [], "coverage": {}}
        if os.environ.get("VERIF_REPO"):
            res["coverage"]["diff_fuzz"] = "skipped: VERIF_REPO override is not supported by cargo-fuzz"
            return res
        hdir = os.path.join(root, "harness")
        work = os.path.join(outdir, "diff-fuzz")
        shutil.rmtree(work, ignore_errors=True)
        cdir, adir = os.path.join(work, "corpus"), os.path.join(work, "artifacts")
        os.makedirs(cdir)
        os.makedirs(adir)
        for i, d in enumerate(_DIFF_SEEDS.get(sel, [b""])):
            with open(os.path.join(cdir, f"seed-{i}"), "wb") as f:
                f.write(bytes([sel]) + d)
        b = subprocess.run(["cargo", "+nightly", "fuzz", "build", "diff"], cwd=hdir, env=_env(),
                           stdout=subprocess.PIPE, stderr=subprocess.STDOUT, text=True)
        if b.returncode != 0:
            res["inconclusive"].append("diff fuzz target build failed: " + "\n".join(b.stdout.splitlines()[-15:]))
            return res
        env = _env()
        env["PVH_FUZZ_SEL"] = str(sel)
        jobs = os.cpu_count() or 4
        t0 = time.time()
        p = subprocess.run(["cargo", "+nightly", "fuzz", "run", "diff", cdir, "--",
                            f"-artifact_prefix={adir}/", f"-max_total_time={DIFF_SECONDS}", f"-seed={seed}",
                            "-timeout=20", "-max_len=1500", "-len_control=0", f"-fork={jobs}", "-ignore_crashes=1",
                            "-ignore_timeouts=1", "-ignore_ooms=1", "-use_value_profile=1"] + _dict_file(work),
                           cwd=hdir, env=env, stdout=subprocess.PIPE, stderr=subprocess.STDOUT, text=True,
                           timeout=DIFF_SECONDS + 600)
        stats = re.findall(r"#(\d+): cov: (\d+) ft: (\d+) corp: (\d+)", p.stdout)
        execs = cov = ft = corp = 0
        if stats:
            execs, cov, ft, corp = (int(x) for x in stats[-1])
        res["coverage"]["diff_fuzz"] = {"oracle_selector": sel, "seconds": round(time.time() - t0, 1),
                                        "executions": execs, "coverage_edges": cov, "features": ft,
                                        "corpus_units": corp, "jobs": jobs, "seed": seed}
        if execs == 0:
            res["inconclusive"].append("diff fuzzer reported no executions: " + "\n".join(p.stdout.splitlines()[-8:]))
        exe = glob.glob(os.path.join(hdir, "fuzz", "target", "*", "release", "diff"))
        other = 0
        for art in sorted(glob.glob(os.path.join(adir, "*")))[:20]:
            base = os.path.basename(art)
            data = open(art, "rb").read()
            if not exe:
                continue
            try:
                rr = subprocess.run([exe[0], "-timeout=60", art], stdout=subprocess.PIPE, stderr=subprocess.STDOUT,
                                    text=True, env=env, timeout=180)
                out, bad = rr.stdout, rr.returncode != 0
            except subprocess.TimeoutExpired:
                out, bad = "timeout", True
            if not bad:
                continue
            m = re.search(r"ORACLE (C\d+): (.*)", out)
            desc = f"diff-fuzz input ({len(data)} bytes, oracle {sel}): {data[:300]!r}"
            if m and m.group(1) == pid:
                res["failures"].append({"idx": 0, "kind": "fuzz-oracle", "sig": None, "desc": desc,
                                        "msg": m.group(2)[:500], "artifact": art, "target": "diff", "sel": sel})
            elif m:
                other += 1   # belongs to a sibling property of the same oracle family: reported by its own check
            elif base.startswith(("crash-", "timeout-", "oom-")):
                res["failures"].append({"idx": 0, "kind": "fuzz-" + base.split("-")[0], "sig": None, "desc": desc,
                                        "msg": "panic/abort/timeout without an oracle message: " + out[-300:],
                                        "artifact": art, "target": "diff", "sel": sel})
        if other:
            res["coverage"]["diff_fuzz"]["artifacts_of_sibling_properties"] = other
        return res

    stage.__name__ = f"diff_fuzz_{sel}"
    return stage
