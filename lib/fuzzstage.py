"""libFuzzer stage for C17 (thorough tier): coverage-guided inputs for every
byte/str entry point, seeded from /verif/corpus.  A crash artifact is a
violation; a timeout/oom artifact only counts after it fails again when
re-run alone with a 60 s limit (otherwise it is reported as inconclusive)."""
import glob
import os
import re
import shutil
import subprocess
import time

SECONDS = int(os.environ.get("VERIF_FUZZ_SECONDS", "120"))


def _env():
    env = dict(os.environ)
    env["CARGO_NET_OFFLINE"] = "true"
    env.pop("RUSTFLAGS", None)
    return env


def _seed_corpus(root, cdir):
    os.makedirs(cdir, exist_ok=True)
    c = os.path.join(root, "corpus")

    def put(sel, name, data):
        with open(os.path.join(cdir, f"seed-{sel}-{name}"), "wb") as f:
            f.write(bytes([sel]) + data)
    pats = open(os.path.join(c, "pkgdeps.txt"), "rb").read().splitlines()
    names = open(os.path.join(c, "pkgnames.txt"), "rb").read().splitlines()
    for i in range(0, len(pats), 400):
        put(0, f"pat{i}", pats[i] + b"\0" + names[(i * 7) % len(names)] + b"\0" + names[(i * 13) % len(names)])
    for p in pats:
        if b"{" in p:
            put(0, "alt%d" % (hash(p) & 0xffff), p + b"\0" + p.replace(b"{", b"").replace(b"}", b"") + b"\0x-1")
    for i in range(0, len(names), 2000):
        put(1, f"name{i}", names[i])
    put(2, "path", b"pat-[0-9]*:../../cat/pkg")
    put(3, "summary", b"BUILD_DATE=x\nCATEGORIES=c\nCOMMENT=c\nDESCRIPTION=d\nMACHINE_ARCH=m\nOPSYS=o\nOS_VERSION=1\nPKGNAME=p-1.0\nPKGPATH=c/p\nPKGTOOLS_VERSION=1\nSIZE_PKG=1\nFILE_SIZE=2\nDEPENDS=a>=1\n")
    put(4, "stream", b"\x07BUILD_DATE=x\nCATEGORIES=c\nCOMMENT=c\nDESCRIPTION=d\nMACHINE_ARCH=m\nOPSYS=o\nOS_VERSION=1\nPKGNAME=p-1.0\nPKGPATH=c/p\nPKGTOOLS_VERSION=1\nSIZE_PKG=1\n\n")
    put(5, "plist", b"@comment x\n@name p-1.0\n@cwd /opt\nbin/foo\nb\n@ignore\n+X\n@option preserve\n@mode 0644\n@exec true\n@unexec false\n@pkgdir d\n@dirrm e\n")
    for f in ("distinfo", "distinfo.bad", "distinfo.subdir"):
        put(6, f, open(os.path.join(c, f), "rb").read())
    idx = open(os.path.join(c, "pbulk-index.txt"), "rb").read()
    put(7, "scan", idx[:1800])
    put(8, "digest", b"SHA512")
    put(9, "hash", open(os.path.join(c, "patch-Makefile"), "rb").read())
    put(10, "meta", b"+SIZE_PKG")
    put(10, "meta2", b"1234\n")
    put(11, "calls", bytes(range(64)))


def fuzz(root, outdir, seed, tier):
    res = {"failures": [], "inconclusive": [], "coverage": {}}
    if os.environ.get("VERIF_REPO"):
        res["coverage"]["fuzz"] = "skipped: VERIF_REPO override is not supported by cargo-fuzz"
        return res
    hdir = os.path.join(root, "harness")
    work = os.path.join(outdir, "fuzz")
    shutil.rmtree(work, ignore_errors=True)
    cdir, adir = os.path.join(work, "corpus"), os.path.join(work, "artifacts")
    os.makedirs(adir, exist_ok=True)
    _seed_corpus(root, cdir)
    nseeds = len(os.listdir(cdir))
    b = subprocess.run(["cargo", "+nightly", "fuzz", "build", "all"], cwd=hdir, env=_env(),
                       stdout=subprocess.PIPE, stderr=subprocess.STDOUT, text=True)
    if b.returncode != 0:
        res["inconclusive"].append("fuzz target build failed: " + "\n".join(b.stdout.splitlines()[-15:]))
        return res
    t0 = time.time()
    jobs = os.cpu_count() or 4
    p = subprocess.run(["cargo", "+nightly", "fuzz", "run", "all", cdir, "--",
                        f"-artifact_prefix={adir}/", f"-max_total_time={SECONDS}", f"-seed={seed}",
                        "-timeout=10", "-max_len=2048", f"-fork={jobs}", "-ignore_crashes=1",
                        "-ignore_timeouts=1", "-ignore_ooms=1"],
                       cwd=hdir, env=_env(), stdout=subprocess.PIPE, stderr=subprocess.STDOUT, text=True,
                       timeout=SECONDS + 600)
    out = p.stdout
    stats = re.findall(r"#(\d+): cov: (\d+) ft: (\d+) corp: (\d+)", out)
    execs = cov = ft = corp = 0
    if stats:
        execs, cov, ft, corp = (int(x) for x in stats[-1])
    res["coverage"]["fuzz"] = {"seconds": round(time.time() - t0, 1), "executions": execs,
                               "coverage_edges": cov, "features": ft, "corpus_units": corp,
                               "seed_units": nseeds, "jobs": jobs, "seed": seed,
                               "entry_points": 12}
    if execs == 0:
        res["inconclusive"].append("fuzzer reported no executions: " + "\n".join(out.splitlines()[-10:]))
    exe = glob.glob(os.path.join(hdir, "fuzz", "target", "*", "release", "all"))
    for art in sorted(glob.glob(os.path.join(adir, "*"))):
        base = os.path.basename(art)
        data = open(art, "rb").read()
        desc = f"fuzz input ({len(data)} bytes, entry selector {data[0] % 12 if data else '-'}): {data[:200]!r}"
        if base.startswith("crash-"):
            res["failures"].append({"idx": 0, "kind": "fuzz-crash", "sig": None, "desc": desc,
                                    "msg": "libFuzzer crash artifact (panic/abort/ASan report)", "artifact": art})
        elif exe:
            try:
                rr = subprocess.run([exe[0], "-timeout=60", "-rss_limit_mb=4096", art], stdout=subprocess.PIPE,
                                    stderr=subprocess.STDOUT, timeout=120)
                bad = rr.returncode != 0
            except subprocess.TimeoutExpired:
                bad = True
            if bad:
                res["failures"].append({"idx": 0, "kind": "fuzz-" + base.split("-")[0], "sig": None, "desc": desc,
                                        "msg": "input exceeds 60 s / 4 GiB when run alone", "artifact": art})
            else:
                res["inconclusive"].append(f"fuzzer flagged {base} under load but it completes when run alone")
    return res


def replay_artifact(root, artifact):
    hdir = os.path.join(root, "harness")
    b = subprocess.run(["cargo", "+nightly", "fuzz", "build", "all"], cwd=hdir, env=_env(),
                       stdout=subprocess.PIPE, stderr=subprocess.STDOUT, text=True)
    if b.returncode != 0:
        return 2, b.stdout[-2000:]
    exe = glob.glob(os.path.join(hdir, "fuzz", "target", "*", "release", "all"))
    rr = subprocess.run([exe[0], "-timeout=60", artifact], stdout=subprocess.PIPE, stderr=subprocess.STDOUT, text=True)
    return (1 if rr.returncode != 0 else 0), rr.stdout[-3000:]
