#!/usr/bin/env python3
"""Regenerate MANIFEST.json from lib/plan.py (keeps the two in step)."""
import json, os, sys
ROOT = os.path.dirname(os.path.dirname(os.path.abspath(__file__)))
sys.path.insert(0, os.path.join(ROOT, "lib"))
import plan

props = [json.loads(l) for l in open(os.path.join(ROOT, "properties.jsonl"))]
checks, na = [], []
for p in props:
    pid = p["id"]
    spec = plan.PLANS.get(pid)
    if not spec:
        na.append({"property_id": pid, "reason": plan.NOT_YET.get(pid, "monitor not built yet (work in progress)")})
        continue
    engines = sorted({e for t in ("quick", "thorough") for (e, _, _) in spec[t]})
    checks.append({
        "property_id": pid,
        "quick_cmd": f"./check {pid} quick",
        "thorough_cmd": f"./check {pid} thorough",
        "evidence_file": f"/verif/evidence/{pid}.json",
        "replay_cmd_template": f"./check {pid} --replay {{path}}",
        "engine": "pvh (" + ", ".join(engines) + ")",
        "level_claimed": {
            "category": "exploration",
            "text": spec["level_text"],
            "design_ref": f"DESIGN.md section 5, {pid}",
        },
        "level_note": spec["level_note"],
        "technique": spec["technique"],
    })
man = {
    "version": 1,
    "setup_cmd": "./setup.sh",
    "hooks": {
        "guard": "pkgsrc_verif",
        "enable": "no hooks exist: every observation is made at the public API boundary, so checks build /repo unmodified (the cfg name pkgsrc_verif is reserved and unused)",
        "baseline_off_cmd": "cd /repo && cargo test --workspace --no-fail-fast --offline",
        "source_commits": [],
        "add_only": True,
    },
    "engines": [
        {"name": "pvh", "path": "/verif/harness", "serves_properties": [c["property_id"] for c in checks],
         "kind_free_text": "Rust harness crate depending on pkgsrc by path=/repo: generators, reference models and one runtime monitor per property; run as release / overflow-checking debug / Miri / ASan / valgrind builds by /verif/check"},
    ],
    "checks": checks,
    "not_applicable": na,
    "notes": "Runtime monitoring only. Verdicts are three-valued: exit 0 held on what was explored, exit 1 + VIOLATION line, exit 2 + INCONCLUSIVE line (never folded into the others). Known findings: /verif/known_findings.txt.",
}
json.dump(man, open(os.path.join(ROOT, "MANIFEST.json"), "w"), indent=1)
print(f"MANIFEST.json: {len(checks)} checks, {len(na)} not_applicable")
