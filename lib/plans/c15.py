"""C15 plan (see lib/plan.py for the format)."""
from plan import R, D, T, stages

PLAN = dict(
    **stages(
        quick=[(R, "quick", 16), (D, "small", 16), (T, "small", 16)],
        thorough=[(R, "thorough", 16), (D, "quick", 16), (T, "quick", 16)],
    ),
    rule=("cases are entry sequences built round-robin from 15 scenarios (tiny, plain, consecutive "
          "@ignore, trailing @ignore, @ignore separated from its file by 1-3 other commands rotating through all 15 "
          "other kinds, @ignore before the first file, no @cwd, @cwd with trailing '/', non-UTF-8 @cwd, @cwd change "
          "between an @ignore and its file, several @name/@display, @option preserve once/repeated, random mix "
          "(all of length 0-30), 'realistic' - a packing list as pkg_create writes it: RCS-id comment, @name, "
          "dependencies, conflicts, @display, @cwd, groups of files with @mode/@owner/@group set and reset, "
          "@ignore'd +METADATA files, @exec/@unexec pairs, @pkgdir, @cwd changes, '@unexec rmdir %D/..' and @dirrm "
          "at the end - and 'long' with 31-400 entries) "
          "with random filler; one sequence in five repeats 1-3 of its lines verbatim (duplicates must stay in every "
          "view). Arguments are random bytes and, alongside, pools of realistic pkgsrc texts for every kind "
          "(@exec/@unexec: 'rmdir %D/share/foo 2>/dev/null || true', '/bin/rmdir -p %D/x', '${MKDIR} %D/y', "
          "'install-info --delete ..', 'true', ':', '%D/bin/x' ...; @cwd: '/usr/pkg', '/usr/pkg//share', "
          "'/usr/pkg/./x', '/usr/pkg/x/.', '/', '.', '..' ...; comments '$NetBSD$', 'DEPENDS', 'ignore'; "
          "relative, absolute and non-canonical @pkgdir/@dirrm; modes, owners, groups; file names '+CONTENTS', "
          "'info/dir', '*.gz', '*.orig', '*~', absolute names, './x'): a view holds every entry of its kinds "
          "whatever the argument says. Sequences are rendered by C14's line generator (aliases, extra blanks, "
          "blank lines, final newline "
          "toggled) and parsed; all 12 queries are compared with one reference fold over the generated sequence, "
          "plus the cross-view law that the four file views hold the same files in the same order. Non-trivial = "
          "at least one ignored file and at least one @cwd change; distinct = distinct document bytes by 64-bit "
          "fingerprint."),
    assumptions=[
        "the reference fold in harness/src/oracle/plist.rs is a faithful reading of the statement",
        "a file is dropped iff an @ignore occurs between it and the preceding file entry (kept or dropped) or the start",
        "'ends in /' is judged on the last byte of the @cwd argument (equivalent to the lossy-string test for every byte string)",
        "cases whose parsed entry sequence (Debug) is not the generated one are C14 violations and are skipped here "
        "(counted under skipped/..); if that empties a required class the run is inconclusive",
    ],
    technique=("runtime monitor: differential test of the twelve Plist query methods against a single-fold reference "
               "model over generated entry sequences that go through the real parser; cross-view consistency law"),
    level_text=("Exploration: ~4x10^5 (quick) to ~3x10^6 (thorough) parsed packing lists, 13 comparisons each; held "
                "means held on the sequences generated, whose ignore-pattern, separator-kind, prefix and multiplicity "
                "classes are all populated."),
    level_note="trusts the reference fold and the generator's reach; sequences longer than 400 entries are not generated",
    not_explored=[
        "sequences longer than 400 entries",
        "Plist values not produced by Plist::from_bytes (there is no other public constructor besides the empty one)",
        "@cwd arguments beginning with a byte whose white-space status is disputed (DESIGN.md section 4)",
    ],
)
