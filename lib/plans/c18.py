"""C18 plan (see lib/plan.py for the format)."""
from plan import R, D, T, stages

PLAN = dict(
    **stages(
        quick=[(R, "quick", 16), (D, "small", 16), (T, "small", 16)],
        thorough=[(R, "thorough", 16), (D, "quick", 16), (T, "quick", 16)],
    ),
    rule=("cases are (a) generated names with 0-4 '-', empty parts, 'nb' inside the base, several 'nb' in the "
          "version, leading zeros, revisions of up to 18 digits and non-ASCII text, a quarter of them with a "
          "dictionary ending (.tgz .tbz .txz .tzst .tar.gz .pkg .orig ~ / blank newline ...) and/or beginning "
          "(./ / All/ ../../cat/ BOM + blank ...) attached, (b) the 21 721 real pkgsrc names, each as it is and "
          "once more with one of those endings/beginnings, each checked for PkgName base/version = split at the "
          "last '-', losslessness, pkgrevision (only for versions ending in nb<digits> or containing no 'nb' in "
          "any case) and agreement of Summary::pkgbase/pkgversion when base and version are non-empty. The "
          "Summary side is observed on a fresh entry with only set_pkgname, after every call of a random setter / "
          "pusher history that sets the other variables before and after set_pkgname (PKGPATH = 'cat/<name up to "
          "one of its dashes>' in 3 of 5 histories, otherwise unrelated; FILE_NAME, DEPENDS, ... built from "
          "pieces of the name; sometimes a different PKGNAME first), and on an entry parsed by Summary::from_str "
          "from a complete text with the same kinds of values in random line order; (c) black-box probes "
          "base-PREFIXnbN matched against base{>=,>,<=,<}PREFIXnb{N-1,N,N+1} through Pattern, which pins the "
          "revision the matcher uses to the one pkgrevision() reports. Non-trivial = >= 2 dashes or >= 2 'nb' "
          "in the name, and every probe; distinct = distinct names by 64-bit fingerprint. Later additions: a parsed entry is renamed with set_pkgname (also on a clone) and the accessors must follow; probe prefixes of exactly k components (length sweep); bounds related to the version by text (without the revision, with .0 / _ in front of it, with a second revision). Round 7: revision probes whose prefix holds a number beyond 64 bits, repeated character for character in the bounds."),
    assumptions=[
        "the reference split / revision reader in harness/src/oracle/misc.rs is a faithful reading of the statement",
        "probe expectations are restated with the reference dewey model (oracle/dewey.rs); probes on which it disagrees would be dropped (none are)",
    ],
    technique="runtime monitor: generated and corpus package names checked against a reference split, plus black-box revision probes through Pattern::matches and a differential check of the Summary accessors",
    level_text=("Exploration: PkgName::new, Summary::pkgbase/pkgversion and Pattern::matches are driven with ~5x10^5 (quick) "
                "to ~5x10^6 (thorough) names and probes; held means held on the names observed, with every dash-count and "
                "nb-count class populated."),
    level_note="trusts the reference split and the dewey reference used to validate probes",
    not_explored=["pkgrevision for versions that contain 'nb' but do not end in nb<digits> ('1nb3alpha', '1.0nb') or use upper case ('1.0NB3'): the statement is silent",
                  "revisions longer than 18 digits",
                  "Summary accessors for names with an empty base or version, or without '-'",
                  "entry texts that Summary::from_str rejects or whose pkgname() is not the PKGNAME line's value are not compared here (C07/C08); names containing a line break are not put into a text",
                  "probe prefixes with letters outside modifiers (reach of known finding K1)"],
)
