"""C18 plan (see lib/plan.py for the format)."""
from plan import R, D, stages

PLAN = dict(
    **stages(
        quick=[(R, "quick", 16), (D, "small", 16)],
        thorough=[(R, "thorough", 16), (D, "quick", 16)],
    ),
    rule=("cases are (a) generated names with 0-4 '-', empty parts, 'nb' inside the base, several 'nb' in the "
          "version, leading zeros, revisions of up to 18 digits and non-ASCII text, (b) the 21 721 real pkgsrc "
          "names, each checked for PkgName base/version = split at the last '-', losslessness, pkgrevision "
          "(only for versions ending in nb<digits> or containing no 'nb' in any case) and agreement of "
          "Summary::pkgbase/pkgversion when base and version are non-empty; (c) black-box probes "
          "base-PREFIXnbN matched against base{>=,>,<=,<}PREFIXnb{N-1,N,N+1} through Pattern, which pins the "
          "revision the matcher uses to the one pkgrevision() reports. Non-trivial = >= 2 dashes or >= 2 'nb' "
          "in the name, and every probe; distinct = distinct names by 64-bit fingerprint."),
    assumptions=[
        "the reference split / revision reader in harness/src/oracle/misc.rs is a faithful reading of the statement",
        "probe expectations are restated with the reference dewey model (oracle/dewey.rs); probes on which it disagrees would be dropped (none are)",
    ],
    technique="runtime monitor: generated and corpus package names checked against a reference split, plus black-box revision probes through Pattern::matches and a differential check of the Summary accessors",
    level_text=("Exploration: PkgName::new, Summary::pkgbase/pkgversion and Pattern::matches are driven with ~5x10^5 (quick) "
                "to ~5x10^6 (thorough) names and probes; held means held on the names observed, with every dash-count and "
                "nb-count class populated."),
    level_note="trusts the reference split and the dewey reference used to validate probes",
    not_explored=["pkgrevision for versions that contain 'nb' but do not end in nb<digits> ('1nb3alpha', '1.0nb') or use upper case ('1.0NB3'): the statement is silent",
                  "revisions longer than 18 digits",
                  "Summary accessors for names with an empty base or version, or without '-'",
                  "probe prefixes with letters outside modifiers (reach of known finding K1)"],
)
