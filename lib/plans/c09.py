"""C09 plan (see lib/plan.py for the format)."""
from plan import R, D, M, T, stages
import fuzzstage

PLAN = dict(
    extra={"thorough": [fuzzstage.diff_stage(3, "C09")]},
    **stages(
        quick=[(R, "quick", 16), (D, "small", 16), (T, "small", 16)],
        thorough=[(R, "thorough", 16), (D, "quick", 16), (T, "quick", 16), (M, "mini", 8)],
    ),
    rule=("a case is one (stream, partition) pair: the stream's bytes are written chunk by chunk into a fresh "
          "SummaryStream. Streams are the canonical texts of 1-6 generated model entries, each followed by one "
          "blank line (values with 2/3/4-byte UTF-8, every other entry ending in a multi-byte character right "
          "before the separator); the reference entries come from the generator, never from a one-shot parse. "
          "Partition families: one call; every single cut position (hence inside every multi-byte character and "
          "between the two newlines of every separator); every pair of cuts for the small streams (<= 600 bytes), "
          "2000 seeded pairs otherwise; fixed chunk sizes 1 (byte at a time), 2, 3, 5, 7, 16, 64, 4096; seeded "
          "random partitions; zero-length writes interleaved (also exactly before, inside and after each "
          "separator). After every write: return value = chunk length, entries() grows monotonically, is a prefix "
          "of the reference list (each new entry compared as text), and the printed length of the collected "
          "entries never exceeds the bytes delivered; after the first three writes and then after every 2^k-th the "
          "collection is also printed between writes and must show exactly the entries collected so far; at the end all 23 getters of every entry and Display of the "
          "collection are compared with the generator's entries / the stream. Malformed streams carry one C08 "
          "fault (line without '=', bad name, bad integer, each of the eleven required variables removed in "
          "rotation) in entry j of n (all j < n <= 4) under the same families: an InvalidData error must come no "
          "later than the write delivering the end of that entry's blank line, and entries() at that moment must "
          "be exactly the j entries before it. Huge streams (quick: 13 well-formed ones of 66 KiB - 1.1 MiB with "
          "100 - 4500 entries, built by repeating 3-6 template entries with a running number in PKGNAME/COMMENT; "
          "tiny, compact and full-size entries; two with one giant entry - a DESCRIPTION of thousands of lines and "
          "a single value of 70 / 140 KiB) are written in few large chunks: one call; a head of T+-2 bytes and the "
          "rest, and a head ending 2, 1, 0 bytes before / 1 byte after the entry boundary that follows T, for T = "
          "4 KiB ... 1 MiB (powers of two) and 10^4, 5 x 10^4, 10^5, 5 x 10^5, 10^6; a big block followed by a short "
          "tail (1, 2, 3, 7 bytes, half an entry, one entry, one and a half, 1000, 5000, 40000 bytes, a third); "
          "fixed chunk sizes 1000, 4096, 8192, 16384, 32768, 65535, 65536, 65537, 98304, 131071, 131072, 131073, "
          "200000, 262144, 524288; a big block then many small writes; small writes then a big block; big and "
          "small alternating; seeded mixtures of threshold-sized, arbitrary and tiny chunks, a third of them with "
          "zero-length writes in between - all under the same per-write and end checks. Huge malformed streams "
          "(75 - 300 KiB) carry one fault in the last entry, the one before, the first entry beyond 64 KiB / "
          "128 KiB, or one in the second half, under the same families plus heads that end just before, inside and "
          "just after the malformed entry. Non-trivial = the partition has at least one cut strictly inside "
          "the stream; distinct = distinct (stream bytes, cut list) by 64-bit fingerprint. Later additions: streams built through new(), default() and a clone taken half way; chunks delivered through write, write_all, write_vectored and write+flush; entries repeated verbatim; one stream in four with its variables in a shuffled order on the wire; the text of a missing-variable error may name no other variable. Round 10: streams in which one separator has its two newlines on either side of 4 KiB ... 128 KiB (shifted by -1/0/+1), delivered after a first write of 1-3 bytes in pieces that end inside entries, right behind the separator, and in one call."),
    exhaustive={"quick": "every single cut of every stream up to 8 KiB (2 small, 10 medium, 3 large, 80 malformed); every pair of cuts of the 2 small streams; for each of the 13 + 20 huge streams every head length T-2..T+2 and the four positions around the following entry boundary for every threshold T below the stream length",
                "thorough": "every single cut of every stream up to 8 KiB (12 small, 160 medium, 40 large, 960 malformed); every pair of cuts of the 12 small streams and of every medium stream <= 400 bytes; the threshold heads of 48 + 80 huge streams"},
    assumptions=[
        "the reference entries and their canonical texts come from the C07 model (harness/src/oracle/summary.rs), which is trusted",
        "a well-formed stream is the concatenation of canonical entry texts each followed by exactly one blank line",
        "the deadline for a malformed stream is the write that delivers the newline of the bad entry's blank line; an error raised earlier is accepted as long as entries() then holds exactly the preceding well-formed entries",
    ],
    technique="runtime monitor: the real SummaryStream is fed generated streams under enumerated and seeded partitions of their bytes (io::Write boundary), with per-write invariants (return value, monotonic prefix, conservation) and end-state comparison against generator ground truth; a Miri shard re-executes a reduced workload to look for UB in the buffer handling",
    level_text=("Exploration: ~3 x 10^5 (quick) to ~4 x 10^6 (thorough) partitions of generated well-formed and "
                "malformed streams are pushed through SummaryStream::write and every write is observed; held means "
                "held on the partitions observed, which include every single cut position of every stream (cuts "
                "inside multi-byte characters and inside separators are required classes) and all pairs of cuts of "
                "the small streams. The thorough run repeats a reduced workload under Miri (8 shards)."),
    level_note="trusts the generator's reference entries; partitions of streams larger than 8 KiB and more than two simultaneous adversarial cuts outside the random/fixed families are sampled, not enumerated",
    not_explored=["invalid UTF-8 as the malformation (DESIGN section 4: C09 speaks of C08's malformations)",
                  "streams with repeated single-valued variables (Display could not reproduce them); a non-canonical variable order is used in one generated stream in four (writes, entries and the canonical rendering by Display are compared)",
                  "streams without the final blank line, or with several blank lines between entries",
                  "behaviour of write() calls made after the failing one",
                  "streams larger than ~1.1 MiB, single entries larger than ~170 KiB, more than ~4500 entries per stream",
                  "huge streams under every-cut / byte-at-a-time partitions (they get threshold-centred, fixed-size and seeded partitions of at most a few thousand writes)"],
)
