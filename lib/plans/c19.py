"""C19 plan (see lib/plan.py for the format)."""
from plan import R, D, T, stages

PLAN = dict(
    **stages(
        quick=[(R, "quick", 16), (D, "small", 16), (T, "small", 16)],
        thorough=[(R, "thorough", 16), (D, "quick", 16), (T, "quick", 16)],
    ),
    rule=("cases are path strings: an exhaustive sweep over every sequence of <= 6 segments from "
          "{'..', '.', 'a', 'b-1', ''} with and without a leading '/', joined by '/' or by '//' (78 124 strings), "
          "plus seeded longer/odd ones (blanks, non-ASCII, '...', ':', NUL in rejected shapes, real-looking names), plus "
          "every pair of 32 real-looking names (digit-initial 0ad 7-zip 6tunnel, g++ gtk+ libsigc++, Xaw3d R-Matrix "
          "ISO8859-2, a.b x_y, one character, vocabulary words) as category and package in 11 accepted and rejected "
          "shapes; acceptance is "
          "compared with an own segment normaliser, accepted values are compared component-wise with "
          "cat/pkg and ../../cat/pkg, with both canonical spellings and with re-parsed accessor output. "
          "Depend: 26 patterns (valid/invalid simple, dewey, glob, alternation) x 19 paths (valid/invalid) x "
          "up to 18 colon arrangements with 0-3 colons, incl. extra colons inside otherwise valid halves; and "
          "every string of 1-4 ':'-separated fields over 19 fields - the vocabulary words full build bootstrap "
          "tool test depends run pkg DEPENDS BUILD Full TOOL (each a valid pattern on its own), two valid "
          "patterns, three valid paths, 'build=foo>=1' and the empty field (137 560 strings); "
          "acceptance = exactly one ':' and both halves parse, parts == the halves parsed directly. "
          "Non-trivial = an accepted path that is not already in canonical spelling, or any Depend string; "
          "distinct = distinct strings by 64-bit fingerprint. Later additions: values that compare equal must hash alike and order as equal; line ends, blanks, NUL and BOM around valid halves through every route (new, from_str, parse, Depend); each path is followed by its relatives with / without '../../', './', a trailing '/' and then asked again; pairs of paths that collide under common fast hash functions. Round 8: noisy spellings of the same category/package (redundant slashes and '.' segments at different places, some of equal length) compared with the input's value and with each other, hashes included."),
    exhaustive={"quick": "all 78 124 strings of <= 6 segments over {'..','.','a','b-1',''} x leading '/' x separator '/' or '//'; all 26 x 19 x <=18 Depend strings; all 137 560 strings of 1-4 fields over the 19-field word alphabet; all 32 x 32 x 11 real-name paths",
                "thorough": "all 78 124 strings of <= 6 segments over {'..','.','a','b-1',''} x leading '/' x separator '/' or '//'; all 26 x 19 x <=18 Depend strings; all 137 560 strings of 1-4 fields over the 19-field word alphabet; all 32 x 32 x 11 real-name paths"},
    assumptions=[
        "the segment normaliser in harness/src/oracle/misc.rs is a faithful reading of the statement (it is deliberately not std::path::Components)",
        "validity of a Depend half is defined by Pattern::new / PkgPath::new on that half, as the statement says",
    ],
    technique="runtime monitor: exhaustive-small and seeded path strings against a reference segment rule, algebraic checks on accepted values, differential check of Depend against its halves",
    level_text=("Exploration: PkgPath::new/from_str/as_path/as_full_path/== and Depend::new/pattern/pkgpath are driven with "
                "the complete small-segment family plus ~10^5 (quick) to ~10^6 (thorough) seeded strings; held means held "
                "on the strings observed."),
    level_note="exhaustive only over the 5-segment alphabet up to 6 segments; trusts the reference normaliser",
    not_explored=["names containing NUL in an otherwise acceptable shape (whether such a name is 'ordinary' is not stated)",
                  "non-UTF-8 input (the API takes &str)",
                  "more than 3 colons in a Depend string"],
)
