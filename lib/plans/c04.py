"""C04 plan."""
from plan import R, D, T, stages
import fuzzstage

PLAN = dict(
    extra={"thorough": [fuzzstage.diff_stage(1, "C04")]},
    **stages(
        quick=[(R, "quick", 16), (D, "small", 16), (T, "small", 16)],
        thorough=[(R, "thorough", 16), (D, "quick", 16), (T, "quick", 16)],
    ),
    rule=("a case is one alternation pattern with a list of candidate names. Patterns: random brace trees "
          "(depth <= 3, <= 3 items per sequence, <= 4 alternatives, empty alternatives, expansion count <= 64 "
          "quick / 4096 thorough) with plain, glob, comparison, invalid-glob and invalid-comparison tails, 10% "
          "with one character deleted (unbalanced); every string of length <= 6 (quick) / 8 (thorough) over "
          "{ } , a b that contains a brace (exhaustive); the 62 real alternations in pkgsrc. Names: "
          "every/sampled expansion instantiated to a matching and a non-matching name, one-character mutations, "
          "the strings obtained by pairing each '{' with the FIRST following '}' (what the repaired defect "
          "accepted), the pattern with all braces/commas removed; for the exhaustive part all 121 strings of "
          "length <= 4 over {a,b,','}. Expected: compiles iff braces are properly nested; matches iff some "
          "string of the reference csh expansion, compiled as a pattern in its own right, matches. "
          "Non-trivial = >= 2 groups or nesting depth >= 2; distinct by fingerprint of (pattern, names). Later additions: a structural sweep (1..70 and 100..300 groups side by side / nested / nested with alternatives, 1 000-10 000 single-alternative groups, 2^1..2^12 and 3^1..3^7 expansions with names matched only by the last expansion); tails in which a token occurs twice; names truncated at a '-', with a piece cut out, with a leading piece repeated, and made of what stands around the groups. Round 7: groups wrapped in character-class heads ('[', '[!', '[]', '[!]', '[^]', ...) and names that match an expansion through the class. Round 8: every pair of the metacharacters * ? [ ] ! - < > = directly behind a group, behind it and followed by '/x', in front of it, and as an alternative inside it. Round 9: names sampled from the language of whole expansions (wildcards filled from an alphabet with multi-byte characters; a comparison expansion's base with versions around its bounds); '?' among the ordinary literals and valid operators among the odd ones."),
    exhaustive={"quick": "all strings of length <= 6 over {'{','}',',','a','b'} containing a brace (without '{}') x 121 names",
                "thorough": "all strings of length <= 8 over {'{','}',',','a','b'} containing a brace (without '{}') x 121 names"},
    technique="runtime monitor: differential test of alternation matching against a reference csh brace expander whose expansions are judged by the real matcher",
    level_text=("Exploration with an exhaustive small-scope part: every short brace string is checked against "
                "every short name, and ~10^5-10^6 random trees against names derived from the true expansions "
                "and from the mis-pairings the old defect accepted."),
    level_note="trusts the reference expander (harness/src/oracle/pattern.rs); each expansion is judged by the real Pattern matcher, whose own correctness is C01/C02/C05",
    assumptions=["'matches as a pattern in its own right' is evaluated with the real Pattern::new/matches on the brace-free (or smaller) expansion"],
    not_explored=["patterns containing the literal group '{}' (csh keeps it literal, the statement's rule expands it to one empty alternative)",
                  "patterns with more than 4096 expansions"],
)
