"""C01 plan (see lib/plan.py for the format)."""
from plan import R, D, T, stages
import fuzzstage

PLAN = dict(
    extra={"thorough": [fuzzstage.diff_stage(0, "C01")]},
    **stages(
        quick=[(R, "quick", 16), (D, "small", 16), (T, "small", 16)],
        thorough=[(R, "thorough", 16), (D, "quick", 16), (T, "quick", 16)],
    ),
    rule=("cases are (A,B) version pairs: seeded random pairs from the version grammar V, "
          "one-edit near neighbours in both orders, real pkgsrc comparison patterns x real "
          "versions, and an exhaustive sweep over every string of <=2 (quick) / <=3 (thorough) "
          "tokens of a 12-token alphabet; each pair is observed through Pattern and Dewey for all "
          "four operators and through best_match in both argument orders and compared with a "
          "reference transliteration of pkg_install's dewey rule. Non-trivial = A != B textually "
          "and the reference decides after the first component; distinct = distinct (A,B) by "
          "64-bit fingerprint. Later additions: every bound B is also used in ranges whose other end is a near neighbour of B (B.0, Brc1, Bnb1, B.1, B without its last token; both orders, four operator pairs), observed at the ranges' own ends and against A; a length sweep (versions of exactly k components for every k <= 70 and around the powers of two up to 2048, every kind of token last); pairs of versions that collide under common fast hash functions (FNV-1a, djb2, sdbm, 31*h, truncated SipHash), found by a birthday search at run time. Round 7: revision clusters - one stem and its equal-valued respelling with every short tail of digits, signs, separators and blanks behind 'nb' (and a further revision behind that), all ordered pairs; number respellings (sign, blanks, radix prefix) as a neighbour edit. Round 9: every string of at most four tokens over 0 1 2 7 . _ (doubled, leading and trailing separators, empty and zero components), ordered pairs sampled by hash; a zero-valued token respelt as another (0 . _ pl) as a neighbour edit."),
    exhaustive={"quick": "SMALL(2): all ordered pairs of the 157 strings of <=2 tokens",
                "thorough": "SMALL(3): all ordered pairs of the 1885 strings of <=3 tokens"},
    assumptions=[
        "the reference model in harness/src/oracle/dewey.rs is a faithful reading of the statement / pkg_install dewey.c",
        "known finding K1 (letter weight) is recognised only when the observation equals the ASCII-weight model exactly",
    ],
    technique="runtime monitor: differential test of the real API against a reference dewey model over generated, corpus and exhaustive-small version pairs",
    level_text=("Exploration: the real Pattern/Dewey/best_match API is driven with ~10^5 (quick) to ~10^7 (thorough) "
                "version pairs and every verdict is compared with an independent reference model; held means held on "
                "the pairs observed, whose operator x deciding-class cells are all populated."),
    level_note="trusts the reference model and the generators' reach; digit runs > 18 digits are outside the property's domain",
    not_explored=["digit runs longer than 18 digits (the property's own bound)",
                  "versions beginning with '=' (would change the operator)"],
)
