"""C02 plan."""
from plan import R, D, T, stages
import fuzzstage

PLAN = dict(
    extra={"thorough": [fuzzstage.diff_stage(0, "C02")]},
    **stages(
        quick=[(R, "quick", 16), (D, "small", 16), (T, "small", 16)],
        thorough=[(R, "thorough", 16), (D, "quick", 16), (T, "quick", 16)],
    ),
    rule=("a case is one pattern text 'BASE op V [op V ...]' (0-4 operators in any order, empty bounds, bases "
          "with '-', non-ASCII or glob characters, real pkgsrc bases) with 3-8 candidate names whose base is the "
          "same / a proper prefix / a proper suffix / an extension / has an extra '-' segment / differs in case / "
          "is empty, or that have no '-'; versions are near neighbours of the bounds so both verdicts occur. "
          "Observed: Dewey::new and Pattern::new acceptance, Dewey::matches and Pattern::matches on every name; "
          "expected: reference operator scanner + count/order rule + byte-wise base comparison + the C01 "
          "reference on letter-free versions. Plus every sequence of 0-3 operators systematically, and real "
          "comparison patterns x real names. Non-trivial = a candidate with a different base or two bounds; "
          "distinct by fingerprint of (pattern, names). Later additions: second bounds that are near neighbours of the first (also with a modifier / revision / component appended), digit runs padded with leading zeros beyond 18 characters, package versions at and around both bounds. Round 7: '=' anywhere in a bound but first, bounds that begin with a non-ASCII character / blank / sign followed by '='; an opening character of the glob dialect in the base with the closing one in the last bound. Round 8: a version against its own text decides by the operator alone (also outside the reference's domain); bounds containing '-' with the name BASE-<bound text>; bounds with the largest 64-bit values, values that do not fit and small values behind 40-70 zeros. Round 10: one case in twelve takes its bounds and most of its versions from one revision cluster."),
    technique="runtime monitor: differential test of Dewey/Pattern compile+match against a reference pattern-structure model, plus Dewey-vs-Pattern agreement",
    level_text=("Exploration: ~10^5 (quick) to ~10^6 (thorough) generated, systematic and corpus pattern/name sets; "
                "every acceptance decision and match verdict is compared with an independent model and the two "
                "matchers with each other; all operator-count classes and base-relation classes are required to be hit."),
    level_note="trusts the reference scanner in harness/src/oracle/pattern.rs and the C01 reference for bound truth; versions are kept letter-free so known finding K1 cannot interfere",
    assumptions=["bound truth is taken from the C01 reference model on versions without free letters",
                 "patterns containing braces are C04's business and are not generated here"],
    not_explored=["bounds beginning with '=' directly after '>'/'<' (changes the operator)",
                  "digit runs longer than 18 digits"],
)
