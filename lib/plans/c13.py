"""C13 plan (see lib/plan.py for the format)."""
import os
import shutil
import subprocess

from plan import R, D, M, A, V, T, stages
import fuzzstage

PYTHON = "/usr/bin/python3"     # its hashlib has md5, sha1, sha256, sha512, blake2s and ripemd160

_STAGES = stages(
    quick=[(R, "quick", 16), (D, "small", 16), (T, "small", 16)],
    thorough=[(R, "thorough", 16), (D, "quick", 16), (T, "quick", 16), (A, "small", 8), (M, "mini", 8), (V, "mini", 2)],
)


def hashlib_vectors(root, outdir, seed, tier):
    """Pre-stage hook: run the hashlib oracle for every workload tier the
    stages of this check tier use and leave `vectors-<tier>.txt` in `outdir`
    (= $PVH_AUX of every shard).  A copy goes to work/C13-replay, the
    directory `./check C13 --replay` hands to the shard (replay does not run
    pre-stage hooks; the header's seed/tier is verified by the harness)."""
    script = os.path.join(root, "oracle", "digest_vectors.py")
    replay_dir = os.path.join(os.path.dirname(os.path.abspath(outdir)), "C13-replay")
    os.makedirs(replay_dir, exist_ok=True)
    for wt in sorted({t for (_, t, _) in _STAGES[tier]}):
        path = os.path.join(outdir, "vectors-%s.txt" % wt)
        p = subprocess.run([PYTHON, script, str(seed), wt, path], stdout=subprocess.PIPE,
                           stderr=subprocess.PIPE, text=True, timeout=600)
        if p.returncode != 0 or not os.path.exists(path):
            raise RuntimeError("digest_vectors.py %s %s failed (rc=%s): %s"
                               % (seed, wt, p.returncode, p.stderr.strip()[-300:]))
        shutil.copyfile(path, os.path.join(replay_dir, os.path.basename(path)))


PLAN = dict(
    extra={"thorough": [fuzzstage.diff_stage(5, "C13")]},
    **_STAGES,
    pre=[hashlib_vectors],
    rule=("inputs come from oracle/digest_vectors.py (Python hashlib, seeded): every length 0-130 with "
          "random / ASCII / multi-byte UTF-8 / all-zero / all-0xFF contents, 255-257, 4095-4097, 8191-8193, "
          "2^k-1 / 2^k / 2^k+1 for k = 9..17, 65537, 262145, and patch texts with '$NetBSD' at line start / "
          "middle / end, as the only line, in an unterminated last line, twice per line, straddling offset "
          "8192, CRLF, near misses and empty lines. Long-line patch texts (class patch-long; none in the "
          "Miri/valgrind tier, one 70 KB text in the debug/ASan tier): a single line longer than a boundary "
          "B with the marker starting 0..7 bytes before line offset B (and before file offset B when short "
          "lines precede it) for every B = 2^9..2^17, and for 2B, a sample of offsets for B = 1000, 10000, "
          "100000, 2^18, 2^19, 2^20; per B also the marker late (beyond B, beyond 2B), at the very end, at "
          "the very start, in the middle, in a long unterminated last line, a near miss across B, lines of "
          "exactly B-1 / B / B+1 bytes, a marker ending exactly at B, a long plain line followed by short "
          "marker lines, two long lines in either order, CRLF. Many-line texts (class patch-many): 300 to "
          "70 000 short lines with marker lines at line numbers 2^k-1 / 2^k / 2^k+1, 1000, 10000 and last. "
          "A case is (input, algorithm, entry point, group): hash_str on the &str; hash_file / hash_patch "
          "under all read schedules of the harness's own reader (whole, 1-byte, seeded short reads, reads "
          "capped at 2 .. 131072 bytes, reads ending at every multiple of 1000 / 4096 / 8192 / 32768 / "
          "65536, cuts inside every '$NetBSD' at each of the six inner offsets, cuts before/after every LF, "
          "std slice and std File readers); Interrupted before / between / after the data reads, before "
          "every single 1-byte read, and in bursts of N consecutive Interrupted (N from 2, 3, 4, 5, 8, 10, "
          "16, 20, 32, 50, 63-65, 100, 127-129, 255-257, 500, 1000, 1023-1025, 4095-4097, 5000, 10000, "
          "32768, 65535-65537, rotating so that every N meets every placement and entry point, plus one "
          "burst of 1 000 003 on every 61st input) before the first data read, between two data reads and "
          "before EOF, delivered as bare-kind, OS-error (EINTR) and custom io::Errors; a hard error after "
          "chunk k for every k. Every digest is compared with hashlib's (plain bytes, or bytes filtered by "
          "the statement's rule re-implemented in Python); a hard error must give Err; all 100 ASCII case "
          "variants of the six names must parse and print canonically, 16 non-names must be rejected. "
          "Non-trivial = non-empty input (reader groups: more than one byte; names: a non-canonical "
          "spelling or a rejected non-name); distinct = distinct (group, algorithm, entry, input bytes) "
          "by 64-bit fingerprint. Later additions: hard reader errors of eight different kinds. Round 7: lines of 256 KiB - 4 MiB that are kept, behind and between short kept lines. Round 8: a long line with a late marker followed directly by short marker lines. Round 9: byte-level near misses of the six names (single-bit flips of every byte in canonical, lower and upper case that are not case changes; one character replaced by a multi-byte one and the name cut back to its own length in bytes) must be rejected. Round 10: the step budget is proportional to the input length."),
    exhaustive={"quick": "all input lengths 0-130 (x >= 3 contents); all 100 ASCII case variants of the six names",
                "thorough": "all input lengths 0-130 (x 23 contents); all 100 ASCII case variants of the six names"},
    assumptions=[
        "Python hashlib (OpenSSL/HACL*) in /usr/bin/python3 implements the six standard algorithms; the script checks one known answer per algorithm before it writes anything",
        "the 12-line patch filter in oracle/digest_vectors.py is a faithful reading of the statement (split on LF, drop final empty piece, drop lines containing '$NetBSD', re-terminate kept lines)",
        "the caller-visible read pattern is fully determined by the harness's Read implementation (no hook inside the library)",
    ],
    technique=("runtime monitor: differential test of Digest::hash_str / hash_file / hash_patch / from_str / "
               "Display against Python hashlib vectors, through fault-injecting and schedule-controlling "
               "readers; re-executed under debug, ASan, Miri and valgrind in the thorough tier"),
    level_text=("Exploration: ~880 (quick) / ~5400 (thorough) seeded inputs x 6 algorithms x up to ~20 read "
                "schedules per entry point, plus Interrupted (single, alternating, bursts up to 10^6) and "
                "hard-error placements, each compared with an "
                "independent hashlib digest; held means held on the executions observed, whose "
                "algorithm x entry point x schedule-family cells and fault placements are all populated."),
    level_note="trusts hashlib and the Python re-implementation of the line filter; inputs and lines above ~1.1 MiB and non-ASCII name folding are not explored",
    not_explored=["inputs and single lines longer than ~1.1 MiB (multi-MiB streams, 2^32-bit length counters); marker straddles only at the listed boundaries (2^9..2^20, 2x, 10^3..10^5) - a piece size in between is seen only through the late-marker texts",
                  "more than 1 000 003 consecutive Interrupted, and more than 300 000 lines in one text",
                  "non-ASCII case folding in Digest::from_str (e.g. U+212A KELVIN SIGN), DESIGN section 4",
                  "alias-like spellings other than 'SHA-1' (e.g. 'RIPEMD160', 'SHA-256'): the statement names six spellings only",
                  "error kinds other than Interrupted / Other (e.g. WouldBlock, UnexpectedEof) and readers that return more bytes than the buffer holds",
                  "the payload and io::ErrorKind carried by DigestError::Io (only the variant is recorded)"],
)
