"""C05 plan."""
from plan import R, D, T, stages
import fuzzstage

PLAN = dict(
    extra={"thorough": [fuzzstage.diff_stage(2, "C05")]},
    **stages(
        quick=[(R, "quick", 16), (D, "small", 16), (T, "small", 16)],
        thorough=[(R, "thorough", 16), (D, "quick", 16), (T, "quick", 16)],
    ),
    rule=("a case is one brace-free, operator-free pattern (1-6 tokens: literals incl. non-ASCII, '*', '?', "
          "'[set]', '[!set]', ranges, stray ']', occasionally a truncated bracket) with ~30 names: two samples "
          "from the pattern's language plus mutations where the two-character shortcut looks and where "
          "whole-name matching matters (first char, second char, swapped, last char, dropped/appended/prepended "
          "char, case flipped, length 1, empty). Expected: reference glob matcher for the stated subset "
          "(cross-checked against the glob crate called directly, which has no shortcut), string equality for "
          "plain patterns, a glob error for an unclosed '['. Shortcut inertness for the other kinds: comparison "
          "patterns vs Dewey::matches, alternations vs the union of their expansions, on names mutated at "
          "positions 0 and 1. Plus the real pkgsrc glob patterns x real names. Non-trivial = every glob case "
          "and every plain case (names differ from a match in <= 1 character by construction); distinct by "
          "pattern fingerprint. Later additions: ']' as first member of a set; Unicode look-alikes of ASCII digits and letters in names; a leading / trailing piece or the whole name repeated; pairs of glob patterns that collide under common fast hash functions (birthday search at run time), checked first, second, first again; ranges with punctuation end points ('[--9]', '[+--]'), '-' as first / last member, one set position swept over every printable ASCII character. Round 10: leading groups whose 2-3 alternatives are globs of their own (later ones often sharing the first character of the first, any of them possibly empty, also the last) followed by a tail, with names from the language of every alternative, against the union of the expansions."),
    exhaustive={"quick": "every pattern of length <= 4 over {a,b,*,?,[,],!,-} (in-subset ones compared, unclosed '[' must be rejected) x all 40 names of length <= 3 over {a,b,-}",
                "thorough": "every pattern of length <= 5 over {a,b,*,?,[,],!,-} x all 40 names of length <= 3 over {a,b,-}"},
    technique="runtime monitor: differential test against a reference shell-glob matcher and shortcut-free partners (glob crate, equality, Dewey, expansion union)",
    level_text=("Exploration: ~10^5-10^6 patterns x ~30 targeted names each; dispatch classes, the unclosed-bracket "
                "class and the position-0/1 negative classes are all required to be reached."),
    level_note="trusts the reference matcher for the subset literal/*/?/[set]/[!set]/ranges; syntax outside it ('**', '[]', '[!]', a lone '-' inside a set that is neither its first nor its last member, reversed ranges, names starting with '.') is not compared",
    assumptions=["the glob crate called directly is only used to cross-check the reference matcher inside the subset"],
    not_explored=["'**', '[]', '[!]', '[a-b-c]', ranges with start > end", "names beginning with '.' (FNM_PERIOD is not mentioned by the statement)"],
)
