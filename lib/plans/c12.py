"""C12 plan (see lib/plan.py for the format)."""
from plan import R, D, T, stages

PLAN = dict(
    **stages(
        quick=[(R, "quick", 16), (D, "small", 16), (T, "small", 16)],
        thorough=[(R, "thorough", 16), (D, "quick", 16), (T, "quick", 16)],
    ),
    rule=("cases are (records, lookup path, bytes on disk) triples: a scenario records a main file (distfile "
          "or patch; content empty, one byte, around hash block boundaries, text with/without final newline, "
          "with '$NetBSD' lines first/middle/last/unterminated, binary, a line longer than 8 KiB, 100 KiB; "
          "DIST_SUBDIR nesting 0-3) plus up to two other files in a Distinfo built by from_bytes or through "
          "insert(), and is then put through every single-step change: one byte of the file flipped (patches: "
          "once outside and once inside a '$NetBSD' line), file shortened/lengthened by one byte, one hex "
          "digit of a recorded hash changed at the first/middle/last position, recorded hash cut to a prefix "
          "or extended, recorded size +-1, an algorithm or the size removed, lookup by a path with no "
          "recorded tail, lookup among the other kind only, and two or three recorded names sharing a tail. "
          "Each case writes the file into a scratch directory and compares find_entry, verify_size, "
          "verify_checksum (all six algorithms), verify_checksums (on Distinfo and on Entry), calculate_size "
          "and calculate_checksum with an oracle that computes digests with the RustCrypto crates directly "
          "and has its own '$NetBSD' filter. Non-trivial = a change was applied, or the file is a patch "
          "containing '$NetBSD', or the recorded name has a directory part; distinct = distinct (label, path, "
          "content, records) by 64-bit fingerprint. Later additions: the Distinfo is also used while it grows (lookups and verifications between insert() calls, on the object and on clones; the final answers are compared); single-line patch contents longer than 8 KiB .. 1 MiB with the marker straddling that offset or late; markers directly behind a proper prefix of themselves; the Size line of a record in front of, among or behind its checksum lines. Round 7: main names from the clauses of the classification rule and its table; one case in four looks up a symbolic link to a regular file with the content. Round 8: one case in eight records the file under the absolute path it is looked up by. Round 9: one case in eight (single-threaded engines) looks the file up relative to the working directory (the scenario directory for that case) while the distinfo also records '<name of that directory>/<path>' with another size; patches recorded below directories whose components are named like patches."),
    assumptions=[
        "the RustCrypto digests called directly are correct (C13 compares pkgsrc::digest with hashlib)",
        "'the file with every line containing $NetBSD removed' = split on LF, drop lines containing '$NetBSD', keep the others with their LF; patch contents whose last kept line lacks its LF are not generated",
        "the name carried by a Size/Checksum error may be the recorded name or the looked-up path (the statement only requires expected and actual values)",
    ],
    technique="runtime monitor with fault injection on the file system: real files and real Distinfo records are corrupted one step at a time and every verification entry point is compared with an independent oracle",
    level_text=("Exploration: ~1900 (quick) / ~19000 (thorough) scenarios x ~20 single-step changes, each observed "
                "through ~30 calls of find_entry/verify_*/calculate_*; held means held on the cases observed, "
                "which populate every (algorithm x kind x change) cell."),
    level_note="trusts the directly called RustCrypto implementations and the harness's '$NetBSD' filter; file-system workload, so no Miri stage",
    not_explored=[
        "patch files whose last kept line has no LF (sed implementations differ on whether the digest input gains one)",
        "verification of a path that does not exist or cannot be read (I/O error kinds)",
        "upper-case recorded hashes; entries with two lines of one algorithm; verify_checksums on an entry without checksums",
        "patch names inside directories ('dir/patch-aa') and other names whose kind depends on the reading of the rule",
        "symlinks, directories and special files as verification targets; files larger than ~100 KiB",
        "payload of MissingSize/MissingChecksum/NotFound beyond the error kind",
    ],
)
