"""C16 plan (see lib/plan.py for the format)."""
from plan import R, D, M, T, stages
import fuzzstage

PLAN = dict(
    extra={"thorough": [fuzzstage.diff_stage(6, "C16")]},
    **stages(
        quick=[(R, "quick", 16), (D, "small", 16), (T, "small", 16)],
        thorough=[(R, "thorough", 16), (D, "quick", 16), (T, "quick", 16), (M, "mini", 8)],
    ),
    rule=("cases are generated pbulk-index documents of 0-8 records in which every value and list item "
          "embeds a unique id (record, key, line number): any subset/order of the 15 known keys, repeated "
          "scalar keys, keys present in record i and absent in record i+1 (leak probes), unknown keys "
          "(PKGNAMEX, XPKGNAME, PKGNAME_, pkgname, ...), lines without '=', blank lines, space/tab padding, "
          "values containing '=', lists of 0-5 items with repeated inner blanks (some valid items use a vocabulary word "
          "as the whole pattern or as the category), duplicate PKGNAME= lines; "
          "each is read through a slice and through a 1-16 byte window reader and every record field is "
          "compared with the by-construction model. Fault cases carry exactly one fault (known key before "
          "the first PKGNAME=, one bad ALL_DEPENDS item at every item position - no ':', extra ':', bad pattern, "
          "bad path, and a third of them built from vocabulary words (full, build, bootstrap, tool, test, depends, "
          "run, pkg, DEPENDS, BUILD, ...) as an extra field in front of / between / behind a valid "
          "'pattern:pkgpath', words only, or a word where the path belongs -, bad PKG_LOCATION, invalid "
          "UTF-8 in an ignored line) or a hard I/O error at the k-th refill of the reader for every k. "
          "Non-trivial = a fault-free document with >= 2 records, any document with a fault, or an I/O "
          "error inside the input; distinct = distinct document bytes (x fault position) by 64-bit fingerprint. Later additions: 'fat' records of 20-170 lines; invalid dependencies that are siblings of a valid one in the same list; reader errors of eight different kinds. Round 7: line pools - for each of five keys every document of three (thorough four) records whose bodies are sequences of at most two lines over four fixed lines. Round 9: known keys with NUL, 0x01, DEL, a zero-width space or a byte-order mark glued on as unknown keys. Round 10: every printable key one bit, or one bit in each of two neighbouring bytes, away from each known key, in a record next to the real key with another value; valid dependency items with a ':' appended or prepended as the invalid item."),
    assumptions=[
        "the by-construction model in harness/src/oracle/scan.rs is a faithful reading of the statement",
        "expected Depend / PkgPath / PkgName values are obtained from Depend::new / PkgPath::new / PkgName::new on the item (their own behaviour is C19 / C18)",
        "a hard I/O error is modelled as one ErrorKind::Other failure of fill_buf; the reader continues with the data afterwards",
    ],
    technique="runtime monitor: generated pbulk-index documents with traceable values and single injected faults (content faults and reader I/O errors at every refill) checked against a by-construction record model",
    level_text=("Exploration: ScanIndex::from_reader is driven with ~10^5 (quick) to ~10^6 (thorough) generated documents "
                "and I/O fault schedules; every field of every returned record is compared with the line it must come "
                "from, and every faulty input must fail as a whole. Held means held on the documents observed; all "
                "fault classes and leak probes are populated."),
    level_note="trusts the generator's model of the format; thorough re-runs a mini workload under Miri",
    not_explored=["keys written with blanks before '=' ('PKGNAME =x')",
                  "junk or unknown-key lines before the first PKGNAME= line",
                  "ErrorKind::Interrupted from the reader",
                  "values or items that begin or end with non-ASCII white space, 0x0B/0x0C, CR",
                  "an empty PKG_LOCATION= value; a list key or an invalid line repeated inside one record (which line counts is not stated)",
                  "invalid UTF-8 inside a value of a known key (only inside ignored lines, where 'fail' and 'ignore the line' are both accepted)"],
)
