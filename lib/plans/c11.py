"""C11 plan (see lib/plan.py for the format)."""
from plan import R, D, M, T, stages

PLAN = dict(
    **stages(
        quick=[(R, "quick", 16), (D, "small", 16), (T, "small", 16)],
        thorough=[(R, "thorough", 16), (D, "quick", 16), (T, "quick", 16), (M, "mini", 8)],
    ),
    rule=("cases are (a) distinfo texts for 1-6 files (every 60th text: 17-300 files, mostly 21-80) whose "
          "well-formed lines ('ALG (name) = hash', "
          "'Size (name) = N bytes', one or more blanks/tabs between fields, optional leading blanks, hashes "
          "unique per line) are interleaved arbitrarily, with must-ignore lines (comments incl. commented-out "
          "well-formed lines, blank lines, unknown algorithms, unparsable sizes, garbage whose first field is no "
          "keyword or whose second field is not parenthesised, the unexpanded $NetBSD$) inserted at every "
          "position and naming the document's own files or a ghost file; the parse result is compared entry by "
          "entry with a model updated by the well-formed lines only (per-kind first-appearance order, "
          "checksums in line order, size, kind, lookups by name); names as in C10, i.e. including names "
          "assembled from the clauses of the classification rule, names derived from another name of the "
          "document (shared trailing components, shared prefix, letter-case twins, twins under lossy UTF-8 "
          "conversion) and 30-200 byte names; (a') a shared-tail workload: chains of 2-4 names of one kind each "
          "of which is a trailing sub-path of the next ('foo.tgz', 'sub/foo.tgz', 'a/sub/foo.tgz'; 'b/f', "
          "'a/b/f'; patches as 'patch-aa', 'patch-d/patch-aa'), optionally a sibling and up to two unrelated "
          "files, every order of first appearance, lines interleaved or grouped; (b) the classification table "
          "(48 rows incl. the combined ones: emul-<os>-patch-local-x is a patch, the exceptions on emul patches "
          "and on patch-local names, stacked exceptions, clauses in the middle of a name, upper-case variants), "
          "random edits of the rows, and (b') names assembled from heads x bodies x 0-3 tails of the rule's "
          "clauses or free mixtures of their fragments, each through EntryType::from and through a parsed "
          "line, expectation from an oracle that refuses every name on which two readings of the rule differ; "
          "(c) an alias workload for known finding K2. Non-trivial = at least two files whose lines are "
          "interleaved and at least one must-ignore line; distinct = distinct texts by 64-bit fingerprint. Later additions: upper- and mixed-case hex hashes, the text of a preceding line's hash again. Round 7: names on which the readings of the rule differ (behind directories, trailing or doubled separators, dot components) under the consistency law only - a line is filed where EntryType::from puts the name; Size lines cut short after each field. Round 8: sizes reduced to a sign or with signs in the wrong place ('+', '++5', '+-5', '5+'). Round 9: byte-level near misses of the algorithm keywords (single-bit flips that are not case changes, e.g. a digit turned into the control byte that c|0x20 folds back) as unknown algorithms."),
    assumptions=[
        "the harness's model of 'well-formed' and 'must-ignore' lines is what the statement means; near-miss lines are not generated",
        "known finding K2 (path-alias-merge) is recognised only in the alias workload, only for two names that differ as bytes and are equal as std::path::Path, and only when the observation is exactly the second name's lines appended to the first name's entry",
    ],
    technique="runtime monitor: generated line soups parsed by the real Distinfo::from_bytes and compared with the generating model (ground truth by construction); classification rule compared with an independent reading that refuses ambiguous names; thorough tier re-runs a reduced workload under Miri",
    level_text=("Exploration: ~4.4x10^5 (quick) to ~4.4x10^6 (thorough) generated texts plus the classification "
                "table, ~6x10^4 / 6x10^5 edited rows, ~1.2x10^5 / 1.2x10^6 clause-assembled names and 1.6x10^4 / 1.6x10^5 alias documents are parsed and compared with the model; held means held on "
                "the texts observed, which reach every line class, grouped and interleaved layouts, texts of more "
                "than 20 files, shared-tail pairs of both kinds in both orders of appearance, every "
                "classification-table row, every clause-combination class and every dangerous name-byte class."),
    level_note="trusts the generator's model; one known finding (K2) is reported as KNOWN-FINDING and not counted as a violation",
    not_explored=[
        "near-miss lines: a supported keyword and a parenthesised name but missing or surplus fields ('SHA1 (x)', 'Size (x) = 5', a bare 'SHA1', a third field other than '=')",
        "upper/lower-case variants of algorithm keywords and of 'Size'; empty or non-hex hashes (upper- and mixed-case hex is used); '+5' / '007' sizes; two Size lines for one file",
        "names whose kind depends on the reading of the rule ('dir/patch-aa', 'emul-patch-x', 'patch-x.tar'); names with white space, 0x0B, 0x0C",
        "shared-tail pairs of different kinds: two names with the same last component have the same kind under the last-component reading, so a differing kind needs a name on which the readings differ ('d/patch-aa')",
        "texts of more than 300 files",
        "names for which PathBuf normalisation matters, outside the alias workload",
        "trailing blanks or CR at the end of a well-formed line; a final line without LF",
        "several RCS Id lines in one text (one may occur as a neutral line; its value is not compared here)",
    ],
)
