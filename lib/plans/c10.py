"""C10 plan (see lib/plan.py for the format)."""
from plan import R, D, M, T, stages
import fuzzstage

PLAN = dict(
    extra={"thorough": [fuzzstage.diff_stage(7, "C10")]},
    **stages(
        quick=[(R, "quick", 16), (D, "small", 16), (T, "small", 16)],
        thorough=[(R, "thorough", 16), (D, "quick", 16), (T, "quick", 16), (M, "mini", 8)],
    ),
    rule=("cases are distinfo documents generated from a model: (a) canonical texts (RCS Id line or the "
          "unexpanded $NetBSD$, blank line, 0-5 distfiles each with a non-empty subset/order of the six "
          "algorithms and a size line up to u64::MAX, then 0-4 patches; every 40th document is large: 17-300 "
          "files, mostly 21-80, split anywhere between the kinds) which must satisfy "
          "from_bytes(T).as_bytes() == T byte for byte, also piecewise through Entry::as_bytes; (b) documents "
          "assembled through the API: Distinfo::new() or, in a quarter of the cases, from_bytes() of a canonical "
          "text, then insert() of 1-8 entries (every 40th: up to 300) in one of seven orders (random "
          "interleaving, all patches then all distfiles, distfiles then patches, alternating, blocks of 1-9, a "
          "lone patch among distfiles, a lone distfile among patches), set_rcsid before, between or after the "
          "insertions; the object (distfiles()/patchfiles()/get_*/rcsid()) and the parse of its as_bytes() "
          "must show the same RCS Id, the same names in order of arrival per kind, the same checksums in order "
          "and the same sizes - also at a random point midway in a fifth of the cases. Names are 1-12 bytes "
          "(plus optional DIST_SUBDIR components) from a pool weighted to 0x85, 0xA0, lone 0xE9, C3 A0, C3 85, "
          "0xFF, 0x01, 0x7F, '(' ')' '='; about a fifth are assembled from the clauses of the classification "
          "rule (heads patch-/patch-local-/emul-<os>-patch-/emul-<os>-patch-local-/near misses/upper case x "
          "bodies x stacked tails .orig/.rej/~/.tar.*/near misses, or free mixtures of these fragments and of "
          "line-syntax tokens such as Size, SHA1, $NetBSD$, #), an eighth are derived from a name already in "
          "the document (directories put in front or removed so that one name is a trailing sub-path of "
          "another, a shared prefix, letter case of one letter, one invalid-UTF-8 byte exchanged for another), "
          "some are 30-200 bytes long; RCS Ids up to 400 bytes. Non-trivial = the document has at least one "
          "file name with a byte >= 0x80; distinct = distinct document texts by 64-bit fingerprint. Later additions: upper- and mixed-case hex hashes, the text of a preceding line's hash again (under another algorithm or file); Distinfo::default() as a starting point."),
    assumptions=[
        "the canonical rendering in harness/src/oracle/distinfo.rs is the layout the statement describes "
        "('ALG (name) = hash', 'Size (name) = N bytes', single blanks, LF line ends)",
        "a file name's kind (distfile/patch) is taken from the harness's reading of the classification rule; "
        "names on which two readings of the rule differ are not generated",
    ],
    technique="runtime monitor: generated documents round-tripped through the real parser and writer and compared with the generating model (ground truth by construction); thorough tier re-runs a reduced workload under Miri",
    level_text=("Exploration: ~4.8x10^5 (quick) to ~4.8x10^6 (thorough) generated documents are driven through "
                "Distinfo::from_bytes/as_bytes/insert/set_rcsid and compared byte for byte or field for field with "
                "the model they were generated from; held means held on the documents observed, which reach every "
                "dangerous name-byte class, non-UTF-8 and unexpanded RCS Ids, DIST_SUBDIR names, u64::MAX sizes, "
                "documents of more than 20 files in both directions and in each of the seven insertion orders, "
                "names sharing trailing components in both orders of appearance, and the combinations of the "
                "classification rule's clauses."),
    level_note="trusts the generator's model and rendering; Miri (thorough) only vouches for the code the mini workload reached",
    not_explored=[
        "names containing white space, 0x0B or 0x0C, empty names, names with '//' , '/./', '.' or '..' components, leading or trailing '/' (PathBuf normalisation, known finding K2 - only in C11's alias workload)",
        "names whose patch/distfile kind depends on the reading of the rule ('dir/patch-aa', 'emul-patch-x', 'patch-x.tar'); in particular two names that share their trailing components always have the same kind here (a differing kind would need exactly such a name)",
        "documents of more than 300 files; insert() of a name that is already present (replacement); removing entries; set_rcsid called more than once",
        "documents outside canonical layout in the parse-write direction (C11 covers their parsing)",
        "empty hashes and hashes that are not hex digits of the algorithm's length (upper- and mixed-case hex is used), two lines of one algorithm for a file, API entries with no line at all, patch entries carrying a size",
        "RCS Ids containing LF; set_rcsid with a string that does not start with '$NetBSD: '",
    ],
)
