"""C06 plan."""
from plan import R, D, T, stages
import fuzzstage

PLAN = dict(
    extra={"thorough": [fuzzstage.diff_stage(0, "C06")]},
    **stages(
        quick=[(R, "quick", 16), (D, "small", 16), (T, "small", 16)],
        thorough=[(R, "thorough", 16), (D, "quick", 16), (T, "quick", 16)],
    ),
    rule=("a case is a pattern (glob, alternation, comparison, catch-all; or a real pkgsrc pattern) with a list of "
          "2-5 candidate names mixing matching and non-matching ones, different bases with tied versions, equal "
          "versions spelt differently (1.0 / 1.0.0 / 1_0 / 1pl0 / 1.0nb0 ...), names without '-'. Observed: "
          "best_match on every ordered pair (None/Some, membership, argument-order independence), the left fold "
          "of all n! permutations and seeded random bracketings of the pairwise reduction. Expected winner = "
          "matching candidate maximal under (version descending, name ascending); matching via the real matcher, "
          "version order via the C01 reference where it is free of known finding K1 and via the real order "
          "otherwise. Non-trivial = at least two matching candidates; distinct by fingerprint of (pattern, list). Later additions: zero-padded digit runs beyond 18 characters; after each list the same characters are split differently between pattern and name (boundary shift) and judged on their own. Round 7: candidate lists of relatives (near-neighbour chains of one version, members of one revision cluster). Round 8: a name and a longer name that begins with it are also passed as two slices of one buffer, both orders. Round 9: candidate lists over digits and separators only (up to five tokens), half of them plain dotted numbers together with an equal-valued respelling of one zero-valued token. Round 10: for a brace pattern the candidates that match are decided by the union of its expansions, each compiled on its own; patterns with an empty base and with an empty alternative in last and in middle position."),
    technique="runtime monitor: best_match compared with a reference arg-max, plus permutation/bracketing invariance of the pairwise reduction",
    level_text=("Exploration: ~10^4-10^5 candidate lists, each reduced in every permutation order and several "
                "bracketings; classes 0/1/2/3+ matching candidates and lists with ties are required."),
    level_note="matching is taken from the real matcher (C02/C04/C05 check it), version order from the C01 reference or, inside K1's reach, from the real order (C01/C03 check it)",
    assumptions=["candidate versions never contain - < > { } and have digit runs <= 18"],
    not_explored=["candidate versions with digit runs > 18 digits"],
)
