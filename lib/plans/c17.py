"""C17 plan."""
from plan import R, D, M, A, T, stages
import fuzzstage

PLAN = dict(
    **stages(
        quick=[(R, "quick", 16), (D, "small", 16), (T, "small", 16)],
        thorough=[(R, "thorough", 16), (D, "quick", 16), (T, "quick", 16), (A, "small", 8), (M, "mini", 16)],
    ),
    extra={"thorough": [fuzzstage.fuzz]},
    timeout={"quick": 900, "thorough": 7200},
    rule=("a case is one call sequence into one public entry point (pattern compile/match/best_match + Dewey, "
          "PkgName, PkgPath, Depend, Summary::from_str, SummaryStream::write in <= 64 chunks, Plist and "
          "PlistEntry + all views, Distinfo + accessors/as_bytes/find_entry/EntryType, ScanIndex::from_reader "
          "also through a reader that injects Interrupted and hard errors, Digest::from_str, the three hashers "
          "for all six algorithms also through a failing reader, Metadata::read_metadata for all 14 entries + "
          "from_filename, PkgDB::open/iterate/read_metadata on generated directory trees, and 60-step sequences "
          "of Summary setters/pushers/getters/Display/is_completed) with an input that is random bytes, random "
          "Unicode, a near-miss line, a seed document (real pkgsrc patterns/names/distinfo/pbulk-index/patch) or "
          "1-3 structural mutations of one (truncation, line duplication, splicing, number inflation to 19/20/40 "
          "digits, NUL / invalid UTF-8 / latin-1 blank injection, 1k-64k long runs, deleted/flipped bytes, CRLF, "
          "repetition), deep (200) and wide (12 groups = 4096 expansions) alternations. The oracle is 'returned': "
          "panics are caught and located, aborts kill the shard and are attributed, every case runs under a "
          "deterministic allocation budget proportional to input length (x expansions for alternations) and a "
          "60 s wall-clock watchdog. All of it runs on a 2 MiB thread (Rust's default for spawned threads). "
          "Package-database trees also hold dangling / looping / file / directory links and directories under metadata names; the iterator is driven in pages through by_ref() and polled again after its end; every pattern is also matched against the first one, two and three characters of its own text and of each alternative; every entry of a parsed distinfo is also verified against a small file that exists. "
          "Deep-structure probes: 20 kinds of structurally huge input (1 000 / 10 000 / 30 000-150 000 brace groups side "
          "by side or nested, '*' / '?' / sets in a glob, version components and letters, '-' in a name, path segments, "
          "lines of one summary variable, stream entries, pushes, PLIST lines and @ignore runs, distinfo files and "
          "lines of one file, pbulk records) each handed to its entry point in a child process with a 2 MiB stack "
          "and a step budget proportional to the input: the child must exit normally (a signal = abort / stack "
          "overflow, 97 = budget, 101 = panic). Non-trivial = any input other than a verbatim seed; distinct by fingerprint "
          "of (entry point, input bytes)."),
    technique="runtime monitor: robustness harness (panic capture, allocation step budget, watchdog) over mutated real documents at every public entry point, re-run under debug overflow checks, ASan, Miri and libFuzzer",
    level_text=("Exploration: ~4x10^5 (quick) to ~6x10^6 (thorough) inputs over 15 entry points; thorough repeats the "
                "workload under ASan and Miri and adds coverage-guided fuzzing; held means no panic, abort, budget "
                "overrun, stall or sanitizer report on the inputs observed."),
    level_note="'promptly' is judged by allocation count per call (deterministic) plus a generous wall-clock watchdog whose firing alone is only inconclusive; alternations with > 4096 expansions are compiled but not matched (cost inherent in the specification)",
    assumptions=["String-typed entry points receive lossy-decoded text (they cannot receive invalid UTF-8)",
                 "allocation count is an adequate step proxy for the library's loops (CPU-only loops are covered by the watchdog)"],
    not_explored=["unreadable package-database directory (root cannot produce EACCES here; PkgDB::open's read_dir(..).expect is not exercised)",
                  "alternations with more than 4096 expansions are only compiled",
                  "inputs larger than ~200 KiB outside the deep-structure probes (which reach ~20 MB)",
                  "glob patterns with between 1 000 and 30 000 '*' wildcards (whether known finding K3 bites there depends on the build's stack frame size)",
                  "stack sizes below 2 MiB"],
)
