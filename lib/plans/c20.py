"""C20 plan (see lib/plan.py for the format)."""
from plan import R, D, T, stages

PLAN = dict(
    **stages(
        quick=[(R, "quick", 16), (D, "small", 16), (T, "small", 16)],
        thorough=[(R, "thorough", 16), (D, "quick", 16), (T, "quick", 16)],
    ),
    rule=("cases are package database trees built by the harness in a scratch directory: 0-12 package "
          "directories with 1-4 '-' and nb revisions in their names, every subset of +COMMENT/+CONTENTS/+DESC "
          "missing (all 8 masks), optional '+' files, extra files inside directories, plain files in the "
          "database (also named like packages), the empty database; the yielded packages, their "
          "pkgname/pkgbase/pkgversion and read_metadata for all 14 entries are compared with what was "
          "written. Further cases: open on a missing path and on a plain file; the MetadataEntry <-> file "
          "name table both ways against the harness' own table plus near-miss and one-edit names, and each of the "
          "14 names with 20 dictionary prefixes (./ / ../ dir/ foo-1.0/ blank tab BOM + ...), 20 suffixes (.gz / "
          ".orig ~ .bak blank newline CR NUL ...), every prefix x suffix pair and whole-name respellings (lower / "
          "title case, no '+', '-' or nothing for '_', doubled) - none may map to an entry; "
          "Metadata::is_valid over all 8 empty/non-empty combinations of comment/contents/desc. "
          "Non-trivial = a tree with an incomplete directory or a complete one with >= 2 dashes, the table "
          "case, every is_valid case; distinct by 64-bit fingerprint of names/masks or texts. Later additions: count / last / nth / skip / step_by / size_hint of fresh iterators agree with the N packages; one database with tens of thousands of plain files and hundreds of incomplete directories; directory names that mean something to other tools (listing and pkgname compared also for names without '-'); several versions of one package with equal-valued versions. Round 7: symbolic links (dangling, looping, to a file), empty and incomplete directories and names that are not UTF-8 in the database directory and inside package directories; a complete directory with a non-UTF-8 name may yield one error item, the iteration must go on. Round 8: an optional metadata file as a symbolic link into /proc (content, size 0): the entry is what reading the link to its end returns. Round 9: the same tree opened through other routes the system resolves to the database directory (trailing separator, '.' components, '<package dir>/..', links with absolute and relative targets, '<link into the database>/..') must list what the plain path lists. Round 10: optional metadata files that are not UTF-8 (text ending inside a multi-byte character, a stray 0xFF): an error or the lossy decoding of the whole file, never a part of it."),
    assumptions=[
        "ground truth is what the harness wrote to its scratch directory; the file system returns it unchanged",
        "the 14 file names in harness/src/oracle/misc.rs are the pkg_install names",
    ],
    technique="runtime monitor: by-construction package database trees on the real file system, table round-trips and validity combinations compared with ground truth",
    level_text=("Exploration: PkgDB::open + iteration + Package accessors + read_metadata are driven over ~2x10^3 (quick) to "
                "~2.5x10^4 (thorough) generated trees; the metadata table is checked on all 14 rows and on near-miss names; "
                "held means held on the trees observed, with all 8 completeness classes populated."),
    level_note="uses the real file system, so no Miri stage; unreadable directories cannot be produced as root",
    not_explored=["package directories whose names are not UTF-8 or contain no '-' (C17 only)",
                  "symlinks, unreadable directories, mandatory entries that are directories, non-UTF-8 mandatory files (read_metadata cannot return them)",
                  "nested package directories",
                  "whitespace-only metadata texts and repeated read_metadata calls for one entry (is_valid)",
                  "metadata files that are not valid UTF-8"],
)
