"""C14 plan (see lib/plan.py for the format)."""
from plan import R, D, M, T, stages
import fuzzstage

PLAN = dict(
    extra={"thorough": [fuzzstage.diff_stage(4, "C14")]},
    **stages(
        quick=[(R, "quick", 16), (D, "small", 16), (T, "small", 16)],
        thorough=[(R, "thorough", 16), (D, "quick", 16), (T, "quick", 16), (M, "mini", 8)],
    ),
    rule=("cases are (a) single lines enumerating, round-robin, every cell of the table "
          "{16 file-name classes} + {18 command words x 10 argument classes} + {27 unknown '@' words x 3}, "
          "each parsed alone by PlistEntry::from_bytes and as a one-line document with and without the "
          "final newline; the classes include 'special' (a dictionary of ~50 prefixes that tools treat "
          "specially - UTF-8/UTF-16 byte order marks, './', '/', '#', quotes, backslash, '%D/', '${..}', NUL, "
          "ESC - in front of command-like text such as '@name x', and of suffixes such as backslash, '/', CR, "
          "BOM: such a line does not begin with '@' and is a file holding all its bytes; the same tokens "
          "in front of, inside and behind arguments), 'long' / 'lead-long' (60-5000 byte names and arguments "
          "behind 0-200 blanks) and arguments from pools of realistic pkgsrc texts per command kind; "
          "(b) random documents of 0-12 lines (70% all valid, 20% one faulty line, 10% "
          "several) with blank / blank-only lines sprinkled everywhere and the final newline toggled; "
          "(c) documents that place a 1-3 character line (or the lone '@') in only/first/middle/last "
          "position with and without the final newline; (d) block-alignment documents: 1-3 stress lines "
          "(blank-only lines of 1-400 blanks/tabs and of k*block +-2, 255-257, 4095-4097, 65535-65537 blanks; "
          "names and command arguments of the same lengths behind 0-200 blanks; one non-blank byte in a run "
          "of blanks; commands whose argument is blanks only; blanks followed by command text) each starting "
          "at, or 1-2 bytes next to, a multiple of 16/32/64/128/256/512/1024/4096/8192/65536 bytes from the "
          "start of the document (filler lines make up the offset), often ending on a block boundary, last "
          "line with and without newline; (e) large documents of 13-600 lines (thorough 800) mixing ordinary "
          "and stress lines, and one document of 128 KiB - 2 MiB per shard (very many lines / very long "
          "lines). The generator knows the expected PlistEntry (or "
          "error kind) of every line. A document is non-trivial when it has >= 2 entry lines and a blank "
          "line, an unterminated last line or a one-character line; a single line is non-trivial when it "
          "is one character long or contains a blank, '@' or non-ASCII byte. Distinct = distinct document "
          "bytes by 64-bit fingerprint. Round 10: documents of exactly n non-blank lines for every n up to 700 (thorough 2100) with and without the final newline; documents of exactly k x 256 / 512 / 1024 / 4096 bytes whose unterminated last file name ends in NUL, DEL or letter padding."),
    assumptions=[
        "derived Debug of PlistEntry / Vec is injective on entries (OsString and String escape, so it is); the text "
        "between the first '[' and the last ']' of Debug(Plist) is the entry list",
        "'blank' = space or tab; the command word ends at the first SPACE; a blank-only argument counts as absent "
        "(DESIGN.md C14)",
        "with several faulty lines in one document only failure is required, not which error is reported",
        "for '@option <other than preserve>' only failure is required, not the error kind",
    ],
    technique=("runtime monitor: by-construction oracle (the generator emits command/separator/argument triples and "
               "knows the entry), observed through Debug of the parsed Plist, PlistEntry::from_bytes per line, a "
               "per-line homomorphism law over the public list views, and metamorphic Plist == under blank-line "
               "insertion / final-newline toggling (must stay equal) and line deletion / duplication / swap (must "
               "differ); release + overflow-checking debug build, Miri shard in thorough"),
    level_text=("Exploration: Plist::from_bytes / PlistEntry::from_bytes are driven with ~9x10^5 (quick) to ~7x10^6 "
                "(thorough) generated lines and documents and every result is compared with the entry sequence or "
                "error kind known by construction; held means held on the inputs generated, whose line-length x "
                "position x final-newline cells and command x argument-class cells are all populated."),
    level_note=("trusts the command table transcribed from the statement in harness/src/gen/plist.rs; bytes whose "
                "white-space status is disputed are kept away from the places where blanks are tested"),
    not_explored=[
        "bytes 0x0B, 0x0C, 0x0D, 0x1C-0x1F, 0x85, 0xA0 as the first non-blank byte of a line or of an argument, or as "
        "the only content of a line (char::is_whitespace / is_ascii_whitespace / 'blank' disagree; DESIGN.md section 4)",
        "lines containing LF handed to PlistEntry::from_bytes directly",
        "documents of more than ~4 MiB or ~10^5 lines; single lines longer than 200 000 bytes; alignment to blocks "
        "larger than 65536 bytes",
        "special prefixes that are Unicode white space when decoded (U+00A0, U+0085, U+3000 ...): only tokens whose "
        "bytes are non-blank under every classification are used",
        "which error is reported when a document has several faulty lines; the kind of error for a wrong @option value",
    ],
)
