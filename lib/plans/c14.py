"""C14 plan (see lib/plan.py for the format)."""
from plan import R, D, M, stages
import fuzzstage

PLAN = dict(
    extra={"thorough": [fuzzstage.diff_stage(4, "C14")]},
    **stages(
        quick=[(R, "quick", 16), (D, "small", 16)],
        thorough=[(R, "thorough", 16), (D, "quick", 16), (M, "mini", 8)],
    ),
    rule=("cases are (a) single lines enumerating, round-robin, every cell of the table "
          "{14 file-name classes} + {18 command words x 8 argument classes} + {22 unknown '@' words x 3}, "
          "each parsed alone by PlistEntry::from_bytes and as a one-line document with and without the "
          "final newline; (b) random documents of 0-12 lines (70% all valid, 20% one faulty line, 10% "
          "several) with blank / blank-only lines sprinkled everywhere and the final newline toggled; "
          "(c) documents that place a 1-3 character line (or the lone '@') in only/first/middle/last "
          "position with and without the final newline. The generator knows the expected PlistEntry (or "
          "error kind) of every line. A document is non-trivial when it has >= 2 entry lines and a blank "
          "line, an unterminated last line or a one-character line; a single line is non-trivial when it "
          "is one character long or contains a blank, '@' or non-ASCII byte. Distinct = distinct document "
          "bytes by 64-bit fingerprint."),
    assumptions=[
        "derived Debug of PlistEntry / Vec is injective on entries (OsString and String escape, so it is); the text "
        "between the first '[' and the last ']' of Debug(Plist) is the entry list",
        "'blank' = space or tab; the command word ends at the first SPACE; a blank-only argument counts as absent "
        "(DESIGN.md C14)",
        "with several faulty lines in one document only failure is required, not which error is reported",
        "for '@option <other than preserve>' only failure is required, not the error kind",
    ],
    technique=("runtime monitor: by-construction oracle (the generator emits command/separator/argument triples and "
               "knows the entry), observed through Debug of the parsed Plist, PlistEntry::from_bytes per line, a "
               "per-line homomorphism law over the public list views, and metamorphic Plist == under blank-line "
               "insertion / final-newline toggling (must stay equal) and line deletion / duplication / swap (must "
               "differ); release + overflow-checking debug build, Miri shard in thorough"),
    level_text=("Exploration: Plist::from_bytes / PlistEntry::from_bytes are driven with ~8x10^5 (quick) to ~6x10^6 "
                "(thorough) generated lines and documents and every result is compared with the entry sequence or "
                "error kind known by construction; held means held on the inputs generated, whose line-length x "
                "position x final-newline cells and command x argument-class cells are all populated."),
    level_note=("trusts the command table transcribed from the statement in harness/src/gen/plist.rs; bytes whose "
                "white-space status is disputed are kept away from the places where blanks are tested"),
    not_explored=[
        "bytes 0x0B, 0x0C, 0x0D, 0x1C-0x1F, 0x85, 0xA0 as the first non-blank byte of a line or of an argument, or as "
        "the only content of a line (char::is_whitespace / is_ascii_whitespace / 'blank' disagree; DESIGN.md section 4)",
        "lines containing LF handed to PlistEntry::from_bytes directly",
        "documents longer than 12 entry lines or lines longer than 5000 bytes",
        "which error is reported when a document has several faulty lines; the kind of error for a wrong @option value",
    ],
)
