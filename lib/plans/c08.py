"""C08 plan (see lib/plan.py for the format)."""
from plan import R, D, T, stages

PLAN = dict(
    **stages(
        quick=[(R, "quick", 16), (D, "small", 16), (T, "small", 16)],
        thorough=[(R, "thorough", 16), (D, "quick", 16), (T, "quick", 16)],
    ),
    rule=("a case is one entry text handed to Summary::from_str, or one setter assignment. Texts: (a) fault-free "
          "complete texts - all eleven required and any optional variables, each repeated 1-3 times, in canonical, "
          "reversed or shuffled line order, with or without the final newline - must be accepted with exactly the "
          "values obtained by folding the lines (value = everything after the first '=', single-valued keep the "
          "last, multi-line accumulate in order) and report is_completed(); (b) fault-free texts lacking 1-3 "
          "required variables must be rejected as Incomplete(one of the absent ones); (c) every one of the eleven "
          "required variables removed in turn from a complete text -> Incomplete(that one); (d) exactly one "
          "inserted fault, round-robin over kind x position (first/middle/last line): a line without '=' -> "
          "ParseLine, a name that is unknown / misspelt / case-changed / blank-padded -> ParseVariable, a "
          "FILE_SIZE or SIZE_PKG value that is empty, '12x', '1.5', ' 5', '5 ', beyond i64, ... -> ParseInt; "
          "(e) 2-3 faults at once -> rejected with one of the causes present; (f) every one of the 2^11 subsets "
          "of the required variables set through set_*/push_* -> is_completed() iff the subset is full, and the "
          "printed form parses iff is_completed(), and is_completed() is asked after every single call on the way "
          "(it must follow the calls made so far whatever it answered before); (g) near misses of the 23 names, "
          "enumerated for every name: one of 22 invisible or blank characters (BOM, zero-width space / joiner / "
          "non-joiner, word joiner, soft hyphen, NBSP and five other Unicode blanks, space, tab, NUL, LRM, "
          "combining accent, variation selector, DEL ...) before the name, after it, after its first character or "
          "around its '_'; one character replaced by a look-alike (Cyrillic/Greek homoglyphs, characters that a "
          "case mapping turns into the ASCII letter such as U+017F, U+0131, U+212A, digits, '-' for '_'); the whole "
          "name in lower case, capitalised, full-width, with a ligature, doubled, or one letter short - each on the "
          "first, a middle and the last line, as an extra line and in place of the variable's real lines -> "
          "ParseVariable (or, in place of a required variable, Incomplete(that one)); lines consisting only of "
          "invisible characters -> ParseLine; (h) long faulty lines: a line without '=', an unknown name (pure, or "
          "a valid name with a long tail / head), a long value after an unknown name, a non-integer FILE_SIZE / "
          "SIZE_PKG, and as the control a fault-free long value that must be accepted verbatim, with lengths "
          "around 64, 80, 100, 128, 255, 256, 512, 1000, 1024, 2048, 4096, 8192 (16 KiB and 64 KiB once) made of "
          "2-, 3-, 4-byte or mixed characters at every byte alignment, so that a byte offset chosen without regard "
          "to character boundaries falls inside a character (a panic is reported by the framework); values of "
          "fault-free lines come from the same typed dictionaries as in C07 ('../../cat/pkg', 'x-1.0.tgz', URLs, "
          "BOM-prefixed text ...). Only the error kind (and which variable for Incomplete) is "
          "compared. Non-trivial = an accepted text with a repeated variable or '=' inside a value, any rejected "
          "text, or a proper non-empty subset; distinct = distinct text by 64-bit fingerprint. Later additions: entries started from new(), default() and a clone; the text of a missing-variable error must name the missing variable and no other; values related to each other (same text under two variables, a pattern on the entry's own PKGBASE, a value beginning with its own VAR=). Round 7: clusters of '=', CR, blank and tab at the start, middle or end of a value (a CR directly before the line feed is excluded). Round 8: lines of a no-break space, a byte-order mark or a vertical tab as lines without '='. Round 10: at the end of an entry a single-valued variable is set, other single-valued variables are set to the empty string, and the first one is set again to something shorter."),
    exhaustive={"quick": "all 2^11 subsets of the required variables through the setters (2 value/order rounds); each of the eleven required variables removed from each of 4000 base texts; every near-miss name (23 names x (22 invisible characters x 3-5 placements + look-alikes)) x 3 line positions x insert/replace x 2 rounds; long lines: 14 limits x 10 width/alignment pairs x 7 kinds x 3 positions x 4 rounds",
                "thorough": "all 2^11 subsets of the required variables through the setters (16 value/order rounds); each of the eleven required variables removed from each of 40000 base texts; the near-miss name enumeration x 12 rounds; the long-line enumeration x 24 rounds"},
    assumptions=[
        "the expectation is known by construction: the generator inserts faults as extra lines and leaves the well-formed lines untouched, so exactly the declared causes are present; this is cross-checked at generation time against an independent line reader (oracle::summary::read), a disagreement aborts the harness",
        "the reference table in harness/src/oracle/summary.rs (names, kinds, eleven required) is a faithful reading of the statement",
        "a strict decimal i64 (optional '-', ASCII digits) is what the statement calls an integer; generated well-formed sizes are always in that form",
    ],
    technique="runtime monitor: generated entry texts with by-construction ground truth (fault-free, one injected fault, several faults) are parsed by the real Summary::from_str; acceptance, values and error kind are compared; is_completed is checked exhaustively over the 2^11 required-variable subsets against the count rule and against the parser",
    level_text=("Exploration: ~2 x 10^5 (quick) to ~2 x 10^6 (thorough) entry texts and setter assignments are "
                "observed and compared with by-construction expectations; held means held on the texts observed, "
                "with every fault kind at every position, all eleven removals on both the parser and the setter "
                "side, repetition of single-valued and multi-line variables and '=' inside values all reached."),
    level_note="trusts the generators' by-construction ground truth (cross-checked against an independent reader) and their reach",
    not_explored=["empty lines and CR inside an entry text (an empty line is the stream's entry separator; str::lines strips CR)",
                  "integer spellings on which readings differ: '+5', '007', '-0', non-ASCII digits, '1_000'",
                  "an empty variable name ('=value') is only required to be rejected as malformed line or unknown variable, not one specific kind",
                  "SIZE_PKG whose only line carries a non-integer is required to be rejected as bad integer or as missing SIZE_PKG (FILE_SIZE, and an extra bad SIZE_PKG line next to a good one, are held to ParseInt)",
                  "payload wording of the errors (only kinds are compared)",
                  "texts longer than ~70 lines; single lines longer than 64 KiB",
                  "names combined with characters that some line splitters treat as line breaks (VT, FF, NEL U+0085, U+2028, U+2029): what a 'line' is would differ between readings",
                  "a near-miss name standing in for a required variable may be reported as unknown variable or as that variable missing"],
)
