"""C07 plan (see lib/plan.py for the format)."""
from plan import R, D, T, stages
import fuzzstage

PLAN = dict(
    extra={"thorough": [fuzzstage.diff_stage(3, "C07")]},
    **stages(
        quick=[(R, "quick", 16), (D, "small", 16), (T, "small", 16)],
        thorough=[(R, "thorough", 16), (D, "quick", 16), (T, "quick", 16)],
    ),
    rule=("a case is one model entry M (all eleven required variables, each optional one with probability 1/2, "
          "every fourth model all 23) together with 5 independent call histories that realise M on 5 fresh "
          "instances (Summary::new(), one Summary::default()): per-variable set_*/push_* sequences with overwritten "
          "earlier values, repetitions, lists built by set, by push or by set-then-push, merged in a random "
          "interleaving. In four of the five histories observation calls are interleaved with the mutating calls "
          "(sparsely, directly before every push_* and after every set_* of a multi-line variable, or - one model in "
          "four - a print after every single call): to_string / format! twice, all 23 getters, is_completed, clone "
          "and continue on the clone (the original must still print its old state at the end), clone-print-drop, "
          "Debug/pkgbase/pkgversion/description_as_str (called, not compared), and printing through a SummaryStream "
          "that holds just this entry; every such observation is compared with the reference model as it is at "
          "that point of the history, then the history goes on. At the end each history's getters and printed text "
          "are compared with the 23-variable reference model (harness/src/oracle/summary.rs), the five texts with "
          "each other, then the text is parsed back (getters = M) and the canonical text is parsed and printed "
          "(byte identity, with and without the final newline). Values: any text without CR/LF (empty, '=', "
          "leading/trailing blanks, VAR= look-alikes, 2/3/4-byte UTF-8, control characters) mixed with per-variable "
          "dictionaries of plausible real-world content (PKGPATH 'cat/pkg', '../../cat/pkg', './cat/pkg', "
          "'cat/pkg/'; PKGNAME with '-' in odd places, 'nb' suffixes, '.tgz'; dependency patterns; FILE_NAME; URLs; "
          "licence expressions; dates; numbers such as '007', '1.10', '+5' in string fields), generic special "
          "tokens (booleans, quotes, escapes, '#', '$VAR', BOM / zero-width / NBSP, case-folding and normalisation "
          "traps, the 23 variable names themselves) and 25 decorations of them (BOM, './', '../../' or '/' prefix; "
          "'/', '.tgz', blank, NBSP, 'nb0' suffix; case change; quotes; doubling ...); multi-line lists sometimes "
          "repeat a member. Further workloads: one awkward value class in every string and multi-line variable in "
          "turn; every dictionary value x every decoration, and every generic token and variable name plain and "
          "decorated once, in every string and multi-line variable (enumerated); long values (64 bytes - 8 KiB "
          "around powers of two and other plausible limits, characters of one width at every byte alignment); "
          "histories that continue a *parsed* entry (parse the canonical text of a complete entry B, optionally "
          "print it, then 1-6 or a full history of further set_*/push_* calls with observations in between: the "
          "end state is B overlaid with the calls); extreme sizes over FILE_SIZE x SIZE_PKG. Non-trivial = at "
          "least one optional variable set and at least one awkward value (empty, contains '=', non-ASCII, blank "
          "at either end, control character, negative or > 2^53 size); distinct = distinct canonical text of M "
          "by 64-bit fingerprint. Later additions: values related to each other (see C08); every third print is preceded by one into a sink that fails after a few bytes. Round 7: two to six values of 4 KiB / 64 KiB / 128 KiB (thorough 1 MiB) at several places of one entry. Round 9: the list-count ladder - exactly n lines in a list variable for n = 100, 256, 500, 1000, 1024, 2000, 4096, 5000, 10000 (thorough: up to 100000), one less, one more; budgets proportional to the bytes of the entry for the huge-value cases. Round 10: integers respelt in the text that is parsed ('+N', '0N', '-0'): if the text is accepted and the getter returns N, the printed form must be the canonical one."),
    exhaustive={"quick": "value class x variable sweep: 5 awkward classes x 21 string/multi-line variables x 8 rounds; typed sweep: every value of each variable's own dictionary x 26 decorations, every generic token and variable-name spelling plain and once decorated, one value of every other variable's dictionary, in each of the 21 string/multi-line variables; 9 x 9 extreme size pairs",
                "thorough": "value class x variable sweep: 5 awkward classes x 21 string/multi-line variables x 64 rounds; the typed sweep x 6 rounds; 9 x 9 extreme size pairs"},
    assumptions=[
        "the reference table in harness/src/oracle/summary.rs (23 names in pkg_summary order, kinds, eleven required) is a faithful reading of the statement and pkg_summary(5)",
        "the binding between table indices and the public getters/setters in harness/src/mon/c07.rs is right (a wrong binding would show up as a violation on the unchanged tree, it cannot hide one)",
        "each Summary::new() draws its own HashMap RandomState, so an output that leaked map order would differ between the five instances of a model",
    ],
    technique="runtime monitor: the real Summary API is driven through generated call histories and every observation (getters, Display, FromStr) is compared with a reference model of the entry; history independence is additionally checked observation against observation",
    level_text=("Exploration: ~6 x 10^4 (quick) to ~6 x 10^5 (thorough) model entries x 5 call histories each are "
                "built through the public setters, printed, parsed back and compared with an independent "
                "23-variable reference model; held means held on the entries and histories observed, with every "
                "one of the 23 variables set, printed and parsed, and each of the six multi-line variables pushed."),
    level_note="trusts the reference table and the generators' reach; values never contain CR or LF (the property's own domain)",
    not_explored=["values containing CR or LF (outside the property's quantifier; str::lines would split them)",
                  "set_* of a multi-line variable with an empty slice (the statement speaks of non-empty line lists)",
                  "entries lacking a required variable (C08 covers acceptance; C07 quantifies over complete entries)",
                  "call histories longer than ~100 mutating calls (plus interleaved observations) or values longer than ~8 KiB",
                  "typed values outside the dictionaries in harness/src/gen/summary.rs (the dictionaries are hand-written, not taken from a real pkg_summary file)",
                  "observation through a SummaryStream is compared only while the entry is complete; Debug output and the derived getters pkgbase/pkgversion/description_as_str are called between mutations but their results are not compared here (C18 owns pkgbase/pkgversion)"],
)
