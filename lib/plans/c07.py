"""C07 plan (see lib/plan.py for the format)."""
from plan import R, D, stages
import fuzzstage

PLAN = dict(
    extra={"thorough": [fuzzstage.diff_stage(3, "C07")]},
    **stages(
        quick=[(R, "quick", 16), (D, "small", 16)],
        thorough=[(R, "thorough", 16), (D, "quick", 16)],
    ),
    rule=("a case is one model entry M (all eleven required variables, each optional one with probability 1/2, "
          "every fourth model all 23) together with 5 independent call histories that realise M on 5 fresh "
          "Summary::new() instances: per-variable set_*/push_* sequences with overwritten earlier values, "
          "repetitions, lists built by set, by push or by set-then-push, merged in a random interleaving. Each "
          "history's getters and printed text are compared with the 23-variable reference model "
          "(harness/src/oracle/summary.rs), the five texts with each other, then the text is parsed back "
          "(getters = M) and the canonical text is parsed and printed (byte identity, with and without the final "
          "newline). A second workload puts one awkward value class (empty, '=', leading/trailing blanks, VAR= "
          "look-alike, 2/3/4-byte UTF-8) into every string and multi-line variable in turn, a third sweeps extreme "
          "sizes over FILE_SIZE x SIZE_PKG. Non-trivial = at least one optional variable set and at least one "
          "awkward value (empty, contains '=', non-ASCII, blank at either end, control character, negative or "
          "> 2^53 size); distinct = distinct canonical text of M by 64-bit fingerprint."),
    exhaustive={"quick": "value class x variable sweep: 5 awkward classes x 21 string/multi-line variables x 8 rounds; 9 x 9 extreme size pairs",
                "thorough": "value class x variable sweep: 5 awkward classes x 21 string/multi-line variables x 64 rounds; 9 x 9 extreme size pairs"},
    assumptions=[
        "the reference table in harness/src/oracle/summary.rs (23 names in pkg_summary order, kinds, eleven required) is a faithful reading of the statement and pkg_summary(5)",
        "the binding between table indices and the public getters/setters in harness/src/mon/c07.rs is right (a wrong binding would show up as a violation on the unchanged tree, it cannot hide one)",
        "each Summary::new() draws its own HashMap RandomState, so an output that leaked map order would differ between the five instances of a model",
    ],
    technique="runtime monitor: the real Summary API is driven through generated call histories and every observation (getters, Display, FromStr) is compared with a reference model of the entry; history independence is additionally checked observation against observation",
    level_text=("Exploration: ~6 x 10^4 (quick) to ~6 x 10^5 (thorough) model entries x 5 call histories each are "
                "built through the public setters, printed, parsed back and compared with an independent "
                "23-variable reference model; held means held on the entries and histories observed, with every "
                "one of the 23 variables set, printed and parsed, and each of the six multi-line variables pushed."),
    level_note="trusts the reference table and the generators' reach; values never contain CR or LF (the property's own domain)",
    not_explored=["values containing CR or LF (outside the property's quantifier; str::lines would split them)",
                  "set_* of a multi-line variable with an empty slice (the statement speaks of non-empty line lists)",
                  "entries lacking a required variable (C08 covers acceptance; C07 quantifies over complete entries)",
                  "call histories longer than ~100 calls or values longer than a few hundred bytes"],
)
