"""C03 plan."""
from plan import R, D, T, stages
import fuzzstage

PLAN = dict(
    extra={"thorough": [fuzzstage.diff_stage(0, "C03")]},
    **stages(
        quick=[(R, "quick", 16), (D, "small", 16), (T, "small", 16)],
        thorough=[(R, "thorough", 16), (D, "quick", 16), (T, "quick", 16)],
    ),
    rule=("a case is a pool of n version strings (n = 160 quick, 400 thorough; clusters of a seed string and up to "
          "30 one-edit neighbours; seeds from the version grammar, arbitrary Unicode, 19-40 digit runs, huge nb "
          "revisions). The full matrix of all four operators over the pool is observed through Pattern "
          "(4 n^2 matches, each string on both sides), then checked for reflexivity, trichotomy, duality, "
          "side-swap on all n^2 pairs, transitivity of <= on all n^3 triples, and two-bound patterns = "
          "conjunction of their halves for sampled (A,C) x all B. No reference model is involved. "
          "distinct_nontrivial counts distinct ordered pairs of textually different strings whose pair laws "
          "were evaluated; counters give triples checked and triples with both premises true. Later additions: length clusters (exactly k components, k swept to 70 and around powers of two to 2048, every kind of last token) inside the pools. Round 7: revision-cluster families (one stem, tails with signs, separators, blanks, second revisions) inside the pools. Round 8: small pools at the edges of the number representation (64-bit maxima and neighbours, values that do not fit, small values behind 19-70 zeros as first component, later component and revision) with every pair of members as the two ends of a range."),
    technique="runtime monitor: algebraic laws (total preorder, operator duality, side swap, conjunction) checked on complete observation matrices of the real matcher",
    level_text=("Exploration: laws between observations of the real code over complete pools, so inputs outside "
                "any reference model (non-ASCII, >18-digit runs, punctuation) are covered; every pool is checked "
                "exhaustively (all pairs, all triples)."),
    level_note="no oracle beyond the laws themselves; strings avoid '-', '<', '>', '{', '}' and a leading '=' so that each can stand on either side of a comparison",
    assumptions=["a string can only be placed in a pattern if it contains none of - < > { } and does not start with '='"],
    not_explored=["strings containing '-', '<', '>', '{', '}' (cannot be written on both sides of a comparison)"],
)
