"""Reach evidence for thorough runs: region/function coverage of the source
files a property is anchored in, measured with -Cinstrument-coverage on the
`small` workload of the property's monitor (one shard holding the whole
workload).  It never changes a verdict; failures of this stage are recorded in
the evidence as `anchor_coverage.error`."""
import glob
import json
import os
import re
import subprocess
import time


def _tool(name):
    sysroot = subprocess.run(["rustc", "+nightly", "--print", "sysroot"], stdout=subprocess.PIPE, text=True).stdout.strip()
    p = os.path.join(sysroot, "lib", "rustlib", "x86_64-unknown-linux-gnu", "bin", name)
    return p if os.path.exists(p) else None


def _demangle(name):
    """Readable path of a legacy-mangled Rust symbol (_ZN<len><ident>...E)."""
    m = re.match(r"^_ZN(.*)E$", name)
    if not m:
        return name
    s, out, i = m.group(1), [], 0
    while i < len(s):
        j = i
        while j < len(s) and s[j].isdigit():
            j += 1
        if j == i:
            break
        n = int(s[i:j])
        seg = s[j:j + n]
        i = j + n
        if re.match(r"^h[0-9a-f]{16}$", seg):
            continue
        seg = (seg.replace("$LT$", "<").replace("$GT$", ">").replace("$u20$", " ").replace("$C$", ",")
               .replace("$RF$", "&").replace("$LP$", "(").replace("$RP$", ")").replace("..", "::")
               .replace("$u7b$", "{").replace("$u7d$", "}").replace("$BP$", "*"))
        out.append(seg.lstrip("_") if seg.startswith("_$") else seg)
    return "::".join(out)


def anchor_coverage(root, outdir, seed, pid, anchors, target_dir, cargo_cfg, repo_dir):
    t0 = time.time()
    res = {}
    prof = os.path.join(outdir, "prof")
    os.makedirs(prof, exist_ok=True)
    llvm_cov, llvm_profdata = _tool("llvm-cov"), _tool("llvm-profdata")
    if not llvm_cov or not llvm_profdata:
        return {"error": "llvm-cov / llvm-profdata not found in the nightly sysroot"}
    env = dict(os.environ)
    env["CARGO_NET_OFFLINE"] = "true"
    env["RUSTFLAGS"] = "-Cinstrument-coverage -Csymbol-mangling-version=legacy -Zunstable-options"
    # also during the build: build scripts would otherwise drop .profraw files into /repo
    env["LLVM_PROFILE_FILE"] = os.path.join(prof, "build-%p-%m.profraw")
    hdir = os.path.join(root, "harness")
    b = subprocess.run(["cargo", "+nightly", "build", "--release", "--offline", "--target-dir", target_dir] + cargo_cfg,
                       cwd=hdir, env=env, stdout=subprocess.PIPE, stderr=subprocess.STDOUT, text=True)
    if b.returncode != 0:
        return {"error": "coverage build failed: " + "\n".join(b.stdout.splitlines()[-8:])}
    exe = os.path.join(target_dir, "release", "pvh")
    for f in glob.glob(os.path.join(prof, "*.profraw")):
        os.remove(f)
    renv = dict(os.environ)
    renv["LLVM_PROFILE_FILE"] = os.path.join(prof, "run-%p.profraw")
    renv["PVH_ENGINE"] = "cov"
    renv["PVH_AUX"] = outdir
    sbase = "/dev/shm" if os.access("/dev/shm", os.W_OK) else outdir
    renv["PVH_SCRATCH"] = os.path.join(sbase, f"pvh-scratch-{os.getpid()}-{pid}-cov")
    out = os.path.join(outdir, "cov-small-0.json")
    r = subprocess.run([exe, "run", pid, "small", str(seed), "0", "1", out], cwd=hdir, env=renv,
                       stdout=subprocess.PIPE, stderr=subprocess.PIPE, timeout=3600)
    subprocess.run(["rm", "-rf", renv["PVH_SCRATCH"]])
    raws = glob.glob(os.path.join(prof, "run-*.profraw"))
    if r.returncode != 0 or not raws:
        return {"error": f"coverage run failed rc={r.returncode}: {r.stderr.decode('utf-8', 'replace')[-300:]}"}
    merged = os.path.join(prof, "merged.profdata")
    m = subprocess.run([llvm_profdata, "merge", "-sparse"] + raws + ["-o", merged], stdout=subprocess.PIPE,
                       stderr=subprocess.STDOUT, text=True)
    if m.returncode != 0:
        return {"error": "llvm-profdata failed: " + m.stdout[-300:]}
    srcs = [os.path.join(repo_dir, a) for a in anchors]
    e = subprocess.run([llvm_cov, "export", "--format=text", "--instr-profile", merged, exe, "--sources"] + srcs,
                       stdout=subprocess.PIPE, stderr=subprocess.PIPE)
    if e.returncode != 0:
        return {"error": "llvm-cov failed: " + e.stderr.decode("utf-8", "replace")[-300:]}
    data = json.loads(e.stdout)["data"][0]
    files = {}
    for f in data.get("files", []):
        name = os.path.relpath(f["filename"], repo_dir)
        s = f["summary"]
        files[name] = {"regions": s["regions"]["count"], "regions_covered": s["regions"]["covered"],
                       "lines": s["lines"]["count"], "lines_covered": s["lines"]["covered"],
                       "functions": s["functions"]["count"], "functions_executed": s["functions"]["covered"]}
    # per function: executed or not (test-module and derive instances are not in a release bin)
    fn = {}
    for f in data.get("functions", []):
        fnames = [os.path.relpath(x, repo_dir) for x in f.get("filenames", []) if x.startswith(repo_dir)]
        if not fnames or not any(x in anchors for x in fnames):
            continue
        nm = _demangle(f["name"])
        regs = [r_ for r_ in f.get("regions", []) if r_[7] == 0]   # code regions
        tot = len(regs)
        cov = sum(1 for r_ in regs if r_[4] > 0)
        cur = fn.setdefault(nm, {"file": fnames[0], "regions": 0, "covered": 0, "calls": 0})
        # generic functions appear once per instantiation: keep the best instantiation
        if cov >= cur["covered"]:
            cur["regions"], cur["covered"] = tot, cov
        cur["calls"] += f.get("count", 0)
    never = sorted(k for k, v in fn.items() if v["calls"] == 0)
    partial = sorted(((k, v["covered"], v["regions"]) for k, v in fn.items() if 0 < v["covered"] < v["regions"]),
                     key=lambda x: x[1] / max(1, x[2]))
    res["files"] = files
    res["functions_seen"] = len(fn)
    res["functions_never_called"] = never[:60]
    res["functions_partially_covered"] = [f"{k}: {c}/{t} regions" for k, c, t in partial[:40]]
    res["workload"] = f"monitor {pid}, tier small, 1 shard, seed {seed}"
    res["seconds"] = round(time.time() - t0, 1)
    for f in glob.glob(os.path.join(prof, "*.profraw")):
        os.remove(f)
    return res
