#!/usr/bin/python3
"""hashlib oracle for property C13 (digests equal the standard algorithms).

    digest_vectors.py <seed> <tier> <outfile>       tier: mini|small|quick|thorough

Deterministically generates, for (seed, tier), the inputs of the C13 workload
and writes them together with the twelve expected lower-case hex digests per
input: six algorithms x {plain bytes, patch-filtered bytes}.  The digests come
from Python's hashlib (OpenSSL / HACL*), which shares no code with the
RustCrypto crates pkgsrc-rs uses.  The patch filter is re-implemented here
from the property statement only:

    split on LF, drop the final empty piece, drop every line that contains
    '$NetBSD', re-terminate every kept line with LF (so a kept final
    unterminated line gains a newline).

Besides the short inputs (every length 0-130, block and buffer boundaries,
systematic and random patch texts) the non-mini tiers hold long-line texts
(`p_long`: one line longer than 2^9 .. 2^20 bytes with the marker at, around
and far beyond that offset of the line) and many-line texts (`p_many`).

File format (line oriented, space separated, trivial to parse without JSON):

    # pvh-digest-vectors v1 seed=<seed> tier=<tier> inputs=<n>
    V <index> <class> <utf8-flag 0|1> <hex of the input, or '-' when empty> <12 digests>
    ...
    # end <n>

Digest order: plain BLAKE2s MD5 RMD160 SHA1 SHA256 SHA512, then the same six
for the filtered bytes.  Stdlib only; nothing here depends on the Python
version (no use of the `random` module).
"""
import hashlib
import os
import sys

ALGS = [("BLAKE2s", "blake2s"), ("MD5", "md5"), ("RMD160", "ripemd160"),
        ("SHA1", "sha1"), ("SHA256", "sha256"), ("SHA512", "sha512")]
MARK = b"$NetBSD"
M64 = (1 << 64) - 1


def patch_filter(data):
    pieces = data.split(b"\n")
    if pieces[-1] == b"":
        pieces.pop()
    return b"".join(p + b"\n" for p in pieces if MARK not in p)


def digests(data):
    out = []
    for variant in (data, patch_filter(data)):
        for _, name in ALGS:
            out.append(hashlib.new(name, variant).hexdigest())
    return out


class Rng:
    """SplitMix64 for choices, SHAKE-256 as a byte-stream expander for bulk
    data; both are fully specified, so a (seed, tier) pair always yields the
    same file."""

    def __init__(self, seed, label):
        h = hashlib.sha256(("pvh-c13|%d|%s" % (seed, label)).encode()).digest()
        self.s = int.from_bytes(h[:8], "little")
        self.key = h
        self.n = 0

    def next(self):
        self.s = (self.s + 0x9E3779B97F4A7C15) & M64
        z = self.s
        z = ((z ^ (z >> 30)) * 0xBF58476D1CE4E5B9) & M64
        z = ((z ^ (z >> 27)) * 0x94D049BB133111EB) & M64
        return z ^ (z >> 31)

    def below(self, n):
        return (self.next() >> 11) % n

    def range(self, lo, hi):
        return lo + self.below(hi - lo + 1)

    def chance(self, num, den):
        return self.below(den) < num

    def pick(self, xs):
        return xs[self.below(len(xs))]

    def bytes(self, n):
        self.n += 1
        return hashlib.shake_256(self.key + self.n.to_bytes(8, "little")).digest(n)


# ---------------------------------------------------------------------------
# contents of a given length
# ---------------------------------------------------------------------------

def c_rand(r, n):
    return r.bytes(n)


def c_zero(r, n):
    return b"\x00" * n


def c_ff(r, n):
    return b"\xff" * n


def c_ascii(r, n):
    # printable ASCII with a few newlines / tabs: always valid UTF-8
    out = bytearray()
    for b in r.bytes(n):
        if b < 8:
            out.append(0x0A)
        elif b < 10:
            out.append(0x09)
        else:
            out.append(0x20 + b % 95)
    return bytes(out)


UCHARS = ["a", "Z", "0", " ", "\n", "$", "\u00e9", "\u00df", "\u0416", "\u20ac", "\u4e2d",
          "\u212a", "\ufffd", "\U0001f600", "\U00010348", "\u0000", "\u007f", "\u0080",
          "\u07ff", "\u0800", "\uffff", "\U0010ffff"]
SHORT = ["a", "\u00e9", "\u20ac"]     # 1, 2 and 3 bytes


def c_utf8(r, n):
    # valid UTF-8 of exactly n bytes with 1- to 4-byte sequences
    out = bytearray()
    while len(out) < n:
        left = n - len(out)
        e = r.pick(UCHARS).encode("utf-8")
        if len(e) > left:
            e = r.pick(SHORT[:left]).encode("utf-8")
        out += e
    return bytes(out)


CONTENT = {"rand": c_rand, "zero": c_zero, "ff": c_ff, "ascii": c_ascii, "utf8": c_utf8}

BOUNDARY = [0, 1, 55, 56, 63, 64, 65, 111, 112, 119, 127, 128, 129]
BIG = [255, 256, 257, 4095, 4096, 4097, 8191, 8192, 8193]
# further round read counts / buffer sizes (1-byte schedules make len reads)
ROUND = [511, 512, 513, 1023, 1024, 1025, 2047, 2048, 2049, 16383, 16384, 16385,
         32767, 32768, 32769, 65535, 65536]
# around a 128 KiB / 256 KiB read buffer
HUGE = [131071, 131072, 131073, 262145]

# ---------------------------------------------------------------------------
# patch texts
# ---------------------------------------------------------------------------

SYSTEMATIC = [
    # marker as the only line
    b"$NetBSD$\n",
    b"$NetBSD$",
    b"$NetBSD",
    b"$NetBSD\n",
    # line start / middle / end
    b"a\n$NetBSD: patch-aa,v 1.1 2020/01/01 joe Exp $\nb\n",
    b"a\n# $NetBSD: x $ tail\nb\n",
    b"a\nfoo $NetBSD\nb\n",
    # unterminated last line: dropped when it holds the marker, else gains LF
    b"a\nb\n$NetBSD$",
    b"a\nb\nc $NetBSD: y $ d",
    b"a\nb",
    b"a",
    b"a\n$NetBSD$\nlast line kept",
    # CRLF: the CR stays part of the line
    b"a\r\n$NetBSD$\r\nb\r\n",
    b"a\r\nb\r\n",
    b"a\r\nb $NetBSD\r",
    b"x\r$NetBSD$\ry\nz\n",
    b"\r\n\r\n",
    # twice in one line
    b"$NetBSD$ $NetBSD: y $\nkeep\n",
    b"k\n$NetBSD$NetBSD\nk\n",
    # near misses: kept
    b"$NetBS\n",
    b"$NetBS",
    b"$NetBS D\n",
    b"$netbsd$\n",
    b"$NETBSD$\n",
    b"NetBSD\n",
    b"$NetBSd$\n",
    b"$ NetBSD\n",
    b"$Net\nBSD\n",
    b"$NetBS\n$NetBS\n",
    b"$Net$BSD\n",
    b"NetBSD$\n",
    # overlapping restarts: contain the marker
    b"$NetBS$NetBSD\n",
    b"$$NetBSD\n",
    b"$Net$NetBSD tail\nkept\n",
    # empty lines
    b"\n",
    b"\n\n",
    b"\n\n\n$NetBSD\n\n",
    b"a\n\nb\n",
    b"\n$NetBSD",
    b"\na",
    # marker right after a newline at the very end
    b"a\n$NetBSD",
    # every line holds the marker
    b"$NetBSD\n$NetBSD\n$NetBSD",
    b"$NetBSD\n$NetBSD\n$NetBSD\n",
    # non-text bytes around the marker
    b"\x00\xff$NetBSD\xff\n\xfe\x00\n",
    b"\xff\xfe\n\x80$NetBS\xc3\n",
    b"\x00\n\x00$NetBSD\x00",
    # a realistic patch
    b"$NetBSD: patch-Makefile,v 1.3 2020/01/01 12:00:00 joe Exp $\n\nFix build.\n\n"
    b"--- Makefile.orig\t2019-12-31 23:59:59.000000000 +0000\n+++ Makefile\n"
    b"@@ -1,3 +1,3 @@\n-CC=gcc\n+CC?=cc\n # $NetBSD$ is expanded by CVS\n all:\n",
]

# The ones the Miri tier takes (all short, one per class).
MINI_SYS = [0, 1, 4, 5, 6, 7, 8, 9, 11, 12, 14, 17, 18, 19, 27, 31, 34, 36, 37, 40, 41, 43, 46]

WORDS = [b"", b"a", b"+", b"-", b"foo", b"--- a/file.c", b"+++ b/file.c", b"@@ -1,2 +1,3 @@",
         b" \tcontext line", b"+added $ line", b"-removed", b"# comment", b"$", b"$Net", b"BSD",
         b"NetBSD", b"$NetBS", b"$netbsd", b"$FreeBSD$", b"$Id$", b"\t", b" "]
MARKED = [b"$NetBSD$", b"$NetBSD", b"$NetBSD: patch-ab,v 1.2 2021/02/03 04:05:06 wiz Exp $",
          b"$NetBSD: x $"]


def p_line(r, binary):
    kind = r.below(16)
    if kind < 5:      # plain
        parts = [r.pick(WORDS) for _ in range(r.range(0, 4))]
        line = b" ".join(parts)
    elif kind < 6:
        line = b""
    elif kind < 7:    # marker at start
        line = r.pick(MARKED) + r.pick([b"", b" tail", b"\t"])
    elif kind < 8:    # middle
        line = r.pick([b"# ", b"/* ", b"x", b"\t"]) + r.pick(MARKED) + r.pick([b" */", b" y", b"z"])
    elif kind < 9:    # end
        line = r.pick([b"# ", b"foo ", b"$Net", b"$"]) + r.pick(MARKED)
    elif kind < 10:   # twice
        line = r.pick(MARKED) + r.pick([b"", b" ", b"$NetBS"]) + r.pick(MARKED)
    elif kind < 12:   # near miss
        line = r.pick([b"$NetBS", b"$NetBS D", b"$Net BSD", b"$netBSD", b"NetBSD$", b"$NetBSd",
                       b"$NetBS$", b"$Net", b"$NetB$NetBS", b"\\$NetBS"]) + r.pick([b"", b" x", b"$"])
    elif kind < 14:   # random printable text
        line = bytes(0x20 + b % 95 for b in r.bytes(r.range(1, 70)))
    else:             # text with a marker at a random offset
        t = bytearray(0x20 + b % 95 for b in r.bytes(r.range(0, 60)))
        at = r.range(0, len(t))
        line = bytes(t[:at]) + MARK + bytes(t[at:])
    if binary and r.chance(1, 3):
        at = r.range(0, len(line))
        junk = bytes(b for b in r.bytes(r.range(1, 4)) if b != 0x0A)
        line = line[:at] + junk + line[at:]
    return line.replace(b"\n", b" ")


def p_text(r, maxlines):
    binary = r.chance(1, 4)
    eol_mode = r.below(4)      # 0,1: LF  2: CRLF  3: mixed
    n = r.range(1, maxlines)
    out = bytearray()
    for i in range(n):
        out += p_line(r, binary)
        last = i == n - 1
        if last and r.chance(1, 3):
            if r.chance(1, 4):
                out += b"\r"
            break
        if eol_mode == 2 or (eol_mode == 3 and r.chance(1, 2)):
            out += b"\r\n"
        else:
            out += b"\n"
    return bytes(out)


def p_straddle(r, at, variant):
    """Texts in which a marker (or a near miss) straddles file offset `at`
    (8192 = BufReader / io::copy buffer size), so that '$Net' | 'BSD' falls on
    the boundary of whole-buffer reads."""
    def filler(n, lines):
        t = bytearray(0x21 + b % 94 for b in r.bytes(n))
        if lines:
            for i in range(37, n, 61):
                t[i] = 0x0A
            if n:
                t[n - 1] = 0x0A
        return bytes(t).replace(MARK, b"#######")
    if variant == 0:     # one long line, marker split 4|3 at the boundary
        return filler(at - 4, False) + MARK + filler(200, False) + b"\nkept\n"
    if variant == 1:     # short lines, marker line split 1|6
        return filler(at - 1, True) + MARK + b"$ tail\nkept line\n" + filler(150, True)
    if variant == 2:     # short lines, split 6|1, unterminated end
        return filler(at - 6, True) + MARK + b"\n" + filler(100, True) + b"end"
    if variant == 3:     # near miss across the boundary: '$Net' | 'BSd'
        return filler(at - 4, True) + b"$NetBSd\n" + filler(120, True)
    if variant == 4:     # marker far before the boundary in a line that crosses it
        return filler(at - 3000, True) + MARK + filler(4000, False) + b"\nnext\n"
    # marker far after the boundary in a line that began before it
    return filler(at - 100, True) + filler(600, False) + MARK + b"\nnext\n" + filler(64, True)


# ---------------------------------------------------------------------------
# very long lines
# ---------------------------------------------------------------------------

def fill(r, n):
    """n printable bytes without LF and without '$' (so no marker, no near miss)."""
    return bytes(0x25 + b % 90 for b in r.bytes(n))


PREFIXES = [b"", b"--- a/file\n+++ b/file\n@@ -1 +1 @@\n", b"x\n", b"\n", b"keep me\r\n# $NetBSD$\n\n"]

LONG_SHAPES = ["late", "end", "end-unterminated", "unterminated-straddle", "unterminated-nomarker",
               "start", "middle", "nomarker-then-markers", "exact", "exact-marker-end", "double-late",
               "nearmiss", "two-long-a", "two-long-b", "both-sides", "crlf-late", "kept-sandwich", "late-then-id"]


def p_long(r, b, shape, k=0, pre=0, mode="line"):
    """A patch text with one (or two) lines longer than `b` bytes.  `b` is the
    boundary under attack: a piece / buffer size an implementation might
    process a long line in.  shape "straddle"/"double-straddle" put the marker
    so that it starts `k` bytes before offset b (2b) - k=0: first byte of the
    next piece, k=1..6: split k|7-k, k=7: last seven bytes of this piece.
    mode "line" measures offsets from the start of the long line, mode "file"
    from the start of the input (they differ when a prefix of short lines
    `PREFIXES[pre]` is present)."""
    head = PREFIXES[pre % len(PREFIXES)]
    base = len(head) if mode == "file" else 0      # bytes of the boundary already used up
    x = r.range(9, 300) + (b // 16 if b >= 4096 else 0)
    t = r.range(0, 200)
    z = r.range(1, 99)
    if shape == "straddle":
        body = fill(r, b - k - base) + MARK + fill(r, t) + b"\nkept\n"
    elif shape == "double-straddle":
        body = fill(r, 2 * b - k - base) + MARK + fill(r, t) + b"\nkept\n"
    elif shape == "straddle-long-tail":
        # ... and the line goes on, without a newline, for more than two further
        # pieces (a join between two newline-free pieces that is never examined)
        body = fill(r, b - k - base) + MARK + fill(r, 2 * b + t + 17) + b"\nkept\n"
    elif shape == "straddle-long-tail-unterminated":
        body = b"first\n" + fill(r, b - k - 6) + MARK + fill(r, 2 * b + t + 17)
    elif shape == "late":            # marker well after the boundary
        body = fill(r, b + x) + MARK + fill(r, t) + b"\nkept line\n"
    elif shape == "double-late":     # ... and after twice the boundary
        body = fill(r, 2 * b + x) + MARK + b": y $" + fill(r, t) + b"\nkept line\n"
    elif shape == "end":             # marker is the very end of a long terminated line
        body = fill(r, b + x) + MARK + b"\nkept\n"
    elif shape == "end-unterminated":
        body = b"first\n" + fill(r, b + x) + MARK
    elif shape == "unterminated-straddle":
        body = b"first\n" + fill(r, b - (k or 3)) + MARK + fill(r, t)
    elif shape == "unterminated-nomarker":   # kept, gains a newline
        body = b"first\n$NetBSD$\n" + fill(r, b + x)
    elif shape == "start":           # the skip must last for the whole line
        body = MARK + fill(r, b + x) + b"\nkept\n" + fill(r, z) + b"\n"
    elif shape == "middle":
        body = fill(r, b // 2) + MARK + fill(r, b) + b"\nkept\n"
    elif shape == "nomarker-then-markers":
        body = fill(r, b + x) + b"\n$NetBSD$\nkept\n# $NetBSD: x $\n" + fill(r, z) + b"\nend"
    elif shape == "exact":           # lines of exactly b-1, b, b+1 bytes (LF excluded)
        body = (fill(r, b - 1) + b"\n$NetBSD$\n" + fill(r, b) + b"\nk\n" + fill(r, b + 1)
                + b"\n$NetBSD\nlast")
    elif shape == "exact-marker-end":  # marker ends exactly at b / at b with the LF / one later
        body = (fill(r, b - 7) + MARK + b"\nkept 1\n" + fill(r, b - 8) + MARK + b"\nkept 2\n"
                + fill(r, b - 6) + MARK + b"\nkept 3\n")
    elif shape == "nearmiss":        # '$Net' | 'BSd' across the boundary: kept
        body = fill(r, b - 4 - base) + b"$NetBSd" + fill(r, t) + b"\nkept\n$NetBS\n"
    elif shape == "two-long-a":      # long marker line, then a long plain line (state is reset)
        body = fill(r, b + x) + MARK + fill(r, t) + b"\n" + fill(r, b + z) + b"\nend\n"
    elif shape == "two-long-b":      # long plain line, then a long marker line
        body = fill(r, b + z) + b"\n" + fill(r, b + x) + MARK + fill(r, t) + b"\nend\n"
    elif shape == "late-then-id":    # a long marker line, then short marker lines (scan state carried over)
        body = (fill(r, b + x) + MARK + fill(r, t) + b"\n$NetBSD: patch-aa,v 1.1 2024/01/01 $\nkept\n"
                + fill(r, z) + b" $NetBSD$\nlast\n")
    elif shape == "kept-sandwich":   # short and long kept lines alternate: order of the kept bytes
        body = b"first\n" + fill(r, b + x) + b"\nmiddle\n" + fill(r, b + z) + b"\nlast\n"
    elif shape == "both-sides":      # marker early and again late in the same line
        body = fill(r, z) + MARK + fill(r, b + x) + MARK + fill(r, t) + b"\nkept\n"
    elif shape == "crlf-late":
        body = b"a\r\n" + fill(r, b + x) + MARK + fill(r, t) + b"\r\nkept\r\n"
    else:
        raise SystemExit("digest_vectors.py: unknown long-line shape %r" % shape)
    return head + body


def p_many(r, nlines, style):
    """A patch of `nlines` short lines whose marker lines sit at round line
    numbers (2^k - 1, 2^k, 2^k + 1 for k >= 7; 1000, 10000, ...), on the last
    line and - style 1 - also early, so that a filter that stops working (or
    starts misbehaving) after a number of lines or bytes is seen."""
    special = set()
    k = 7
    while (1 << k) - 1 <= nlines:
        special.update(((1 << k) - 1, 1 << k, (1 << k) + 1))
        k += 1
    special.update((1000, 10000, 50000, 100000, nlines - 1, nlines - 2))
    if style == 1:
        special.update((0, 3, 64))
    short = [b"", b"a", b"+", b"-x", b" ctx", b"$", b"$NetBS", b"}", b"+\t}", b"@@ -1 +1 @@"]
    picks = r.bytes(nlines)
    out = bytearray()
    for i in range(nlines):
        if i in special:
            out += [b"$NetBSD$", b"# $NetBSD: f,v 1.%d $" % (i % 100), b"+ $NetBSD"][i % 3]
        else:
            out += short[picks[i] % len(short)]
        if i < nlines - 1 or style != 2:
            out += b"\n"
    return bytes(out)


def long_lines(r, seed, tier):
    """The (class, text) list of long-line patch inputs of a tier."""
    out = []

    def add(*a, **kw):
        out.append(("patch-long", p_long(r, *a, **kw)))

    if tier == "small":
        # cheap boundaries densely, one modest 64 KiB case (debug build / ASan)
        for b in (512, 1024, 4096, 8192):
            for k in range(8):
                add(b, "straddle", k=k, pre=(k + seed) % 2 * (1 + k % 4), mode=["line", "file"][k % 2])
            add(b, LONG_SHAPES[(b // 512 + seed) % len(LONG_SHAPES)])
        add(65536, "late", pre=seed % 3)
        out.append(("patch-many", p_many(r, 1100, seed % 3)))
        return out

    thorough = tier == "thorough"
    small_b = [512, 1024, 2048, 4096, 8192, 16384, 32768]
    for b in small_b:
        for k in range(8):
            add(b, "straddle", k=k)
        for k in range(1, 7):
            add(b, "straddle", k=k, pre=1 + (k + seed) % 4, mode="line")
            add(b, "straddle", k=k, pre=1 + (k + seed + 1) % 4, mode="file")
        for k in range(1, 7):
            if thorough or (k + seed + b // 512) % 3 == 0:
                add(b, "double-straddle", k=k, pre=(k + seed) % 5)
        for i, sh in enumerate(LONG_SHAPES):
            add(b, sh, k=1 + (i + seed) % 6, pre=(i + seed) % 5 if i % 2 else 0)
    # long tails behind a straddling marker
    for b in (8192, 65536):
        for k in range(1, 7):
            if thorough or (k + seed) % 2 == 0:
                add(b, "straddle-long-tail", k=k)
                add(b, "straddle-long-tail", k=k, pre=1 + (k + seed) % 4, mode="file")
        add(b, "straddle-long-tail-unterminated", k=3)
    # 64 KiB: everything once
    b = 65536
    for k in range(8):
        add(b, "straddle", k=k)
    for k in range(1, 7):
        if thorough or (k + seed) % 2 == 0:
            add(b, "straddle", k=k, pre=1 + (k + seed) % 4, mode="line")
            add(b, "straddle", k=k, pre=1 + (k + seed + 1) % 4, mode="file")
    for k in range(1, 7):
        add(b, "double-straddle", k=k, pre=(k + seed) % 5 if k % 2 else 0)
    for i, sh in enumerate(LONG_SHAPES):
        add(b, sh, k=1 + (i + seed) % 6, pre=(i + seed) % 5 if i % 2 else 0)
    # 128 KiB
    b = 131072
    for k in range(8):
        add(b, "straddle", k=k, pre=(k + seed) % 5 if k % 2 else 0)
    for sh in ("late", "end", "end-unterminated", "unterminated-nomarker", "start",
               "nomarker-then-markers", "exact", "exact-marker-end", "two-long-b"):
        add(b, sh, pre=seed % 5)
    # decimal round sizes and 65535-style limits are straddled by the above
    # (k = 2..7 around 2^n) or get their own straddles here
    for b in (1000, 10000, 100000):
        for k in range(1, 7):
            if thorough or (k + seed) % 3 == 0:
                add(b, "straddle", k=k, pre=(k + seed) % 5)
        add(b, "late")
    # 256 KiB, 512 KiB, 1 MiB: a small number of very long lines
    for b in (262144, 524288, 1048576):
        ks = range(8) if thorough else [1 + (seed + b // 262144) % 6]
        for k in ks:
            add(b, "straddle", k=k, pre=(k + seed) % 5)
        add(b, "late", pre=(seed + 1) % 5)
        # long lines that are kept, behind and between short kept lines (a
        # rung of the ladder for the kept bytes, not only for the marker search)
        add(b, "kept-sandwich", pre=1 + (seed + b // 262144) % 4)
        add(b, ["nomarker-then-markers", "nearmiss", "exact", "two-long-b"][(seed + b // 262144) % 4], pre=1 + seed % 4)
        if thorough:
            add(b, "end-unterminated")
            add(b, "nomarker-then-markers")
            add(b, "start")
    # the size ladder: one line of 4 MiB (thorough: also 16 MiB) with the marker
    # late in it (a per-line cap or piece size "large enough for any real
    # patch" shows one rung above it and nowhere below)
    for b in ([4194304, 16777216] if thorough else [4194304]):
        add(b, "late", pre=seed % 5)
        if b <= 4194304:
            add(b, "kept-sandwich", pre=1 + seed % 4)
    # very many short lines
    for i, n in enumerate([300, 1100, 4200, 9000, 33000, 70000] + ([140000, 300000] if thorough else [])):
        out.append(("patch-many", p_many(r, n, (i + seed) % 3)))
        if thorough:
            out.append(("patch-many", p_many(r, n + r.range(1, 90), (i + seed + 1) % 3)))
    return out


# ---------------------------------------------------------------------------
# the per-tier input lists
# ---------------------------------------------------------------------------

def inputs_for(seed, tier):
    r = Rng(seed, tier)
    out = []

    def add(cls, data):
        out.append((cls, data))

    def content(cls, n):
        add(cls, CONTENT[cls](r, n))

    if tier == "mini":
        # ~40 inputs, <= 300 bytes except a single larger one
        rot = ["ascii", "rand", "utf8", "zero", "ascii", "ff", "utf8"]
        for i, n in enumerate(BOUNDARY):
            content(rot[(i + seed) % len(rot)], n)
        for i, n in enumerate([255, 256, 257]):
            content(["rand", "ascii", "zero"][(i + seed) % 3], n)
        for _ in range(3):
            content(r.pick(["ascii", "utf8", "rand"]), r.range(2, 300))
        content("ascii", 1100)
        for i in MINI_SYS:
            add("patch-sys", SYSTEMATIC[i])
        for _ in range(3):
            add("patch-rand", p_text(r, 6)[:300])
        return out

    if tier == "small":
        valid = ["ascii", "utf8", "zero"]
        for n in range(0, 131):
            content(valid[(n + seed) % 3], n)
        for i, n in enumerate(BOUNDARY):
            content(["rand", "ff"][(i + seed) % 2], n)
        for i, n in enumerate(BIG):
            content(["rand", "ascii", "utf8", "ff", "zero"][(i + seed) % 5], n)
        for s in SYSTEMATIC:
            add("patch-sys", s)
        add("patch-big", p_straddle(r, 8192, 0))
        add("patch-big", p_straddle(r, 8192, 1))
        for _ in range(10):
            add("patch-rand", p_text(r, 12))
        for i, n in enumerate([1023, 1024, 1025, 16384]):
            content(["rand", "ascii", "utf8"][(i + seed) % 3], n)
        out.extend(long_lines(r, seed, tier))
        return out

    if tier == "quick":
        for n in range(0, 131):
            content("rand", n)
            content(["ascii", "utf8"][(n + seed) % 2], n)
            content(["zero", "ff"][(n + seed // 2) % 2], n)
        for n in BOUNDARY:
            content(["utf8", "ascii"][(n + seed) % 2], n)
        for n in BIG:
            content("rand", n)
            content(["ascii", "utf8"][(n + seed) % 2], n)
        content("zero", 4096)
        content("ff", 8193)
        content("rand", 65537)
        content("ascii", 65537)
        for s in SYSTEMATIC:
            add("patch-sys", s)
        for v in range(6):
            add("patch-big", p_straddle(r, 8192, v))
        add("patch-big", p_straddle(r, 16384, 0))
        add("patch-big", p_straddle(r, 16384, 1))
        for _ in range(40):
            add("patch-rand", p_text(r, 14))
        for i, n in enumerate(ROUND):
            content(["rand", "ascii", "utf8"][(i + seed) % 3], n)
        for i, n in enumerate(HUGE):
            content(["rand", "ascii"][(i + seed) % 2], n)
        # the size ladder for plain streams: a little more than 4 MiB
        content("rand", 4194304 + 4099)
        out.extend(long_lines(r, seed, tier))
        return out

    if tier == "thorough":
        for n in range(0, 131):
            content("zero", n)
            content("ff", n)
            for _ in range(10):
                content("rand", n)
            for _ in range(7):
                content("ascii", n)
            for _ in range(4):
                content("utf8", n)
        for n in BIG:
            for cls in ("zero", "ff", "rand", "rand", "rand", "ascii", "ascii", "utf8"):
                content(cls, n)
        for cls in ("zero", "ff", "rand", "rand", "ascii", "utf8"):
            content(cls, 65537)
        for _ in range(300):
            # biased towards small, up to 20 000
            n = r.range(131, r.pick([400, 400, 2000, 9000, 20000]))
            content(r.pick(["rand", "rand", "ascii", "utf8"]), n)
        for s in SYSTEMATIC:
            add("patch-sys", s)
        for at in (8192, 16384, 24576):
            for v in range(6):
                add("patch-big", p_straddle(r, at, v))
        for _ in range(1480):
            add("patch-rand", p_text(r, r.pick([4, 10, 10, 25, 60])))
        for _ in range(20):
            add("patch-rand", p_text(r, 400))
        for n in ROUND + HUGE:
            for cls in ("rand", "ascii", "utf8"):
                content(cls, n)
        content("rand", 1048577)
        content("rand", 4194304 + 4099)
        content("ascii", 16777216 + 4099)
        out.extend(long_lines(r, seed, tier))
        return out

    raise SystemExit("digest_vectors.py: unknown tier %r" % tier)


def is_utf8(b):
    try:
        b.decode("utf-8")
        return True
    except UnicodeDecodeError:
        return False


def write_vectors(seed, tier, path):
    items = inputs_for(seed, tier)
    tmp = path + ".tmp"
    with open(tmp, "w", encoding="ascii", newline="\n") as f:
        f.write("# pvh-digest-vectors v1 seed=%d tier=%s inputs=%d\n" % (seed, tier, len(items)))
        for i, (cls, data) in enumerate(items):
            f.write("V %d %s %d %s %s\n" % (i, cls, 1 if is_utf8(data) else 0,
                                            data.hex() if data else "-", " ".join(digests(data))))
        f.write("# end %d\n" % len(items))
    os.replace(tmp, path)
    return len(items)


def selftest():
    """Known answers, so that a broken hashlib build cannot become the oracle."""
    kat = {
        "blake2s": "9aec6806794561107e594b1f6a8a6b0c92a0cba9acf5e5e93cca06f781813b0b",
        "md5": "5eb63bbbe01eeed093cb22bb8f5acdc3",
        "ripemd160": "98c615784ccb5fe5936fbc0cbe9dfdb408d92f0f",
        "sha1": "2aae6c35c94fcfb415dbe95f408b9ce91ee846ed",
        "sha256": "b94d27b9934d3e08a52e52d7da7dabfac484efe37a5380ee9088f7ace2efcde9",
        "sha512": "309ecc489c12d6eb4cc40f50c902f2b4d0ed77ee511a7c7a9bcd3ca86d4cd86f"
                  "989dd35bc5ff499670da34255b45b0cfd830e81f605dcf7dc5542e93ae9cd76f",
    }
    for name, want in kat.items():
        got = hashlib.new(name, b"hello world").hexdigest()
        if got != want:
            raise SystemExit("digest_vectors.py: hashlib %s fails its known answer" % name)
    assert patch_filter(b"") == b""
    assert patch_filter(b"a") == b"a\n"
    assert patch_filter(b"a\n$NetBSD$\nb") == b"a\nb\n"
    assert patch_filter(b"\n\n") == b"\n\n"
    assert patch_filter(b"$Net\nBSD\n") == b"$Net\nBSD\n"
    assert patch_filter(b"x\r$NetBSD$\ry\nz\n") == b"z\n"
    assert patch_filter(b"q" * 70000 + b"$NetBSD" + b"r" * 9 + b"\nk") == b"k\n"
    assert patch_filter(b"q" * 65533 + b"$NetBSd\n" + b"$NetBSD" * 20000) == b"q" * 65533 + b"$NetBSd\n"


def main(argv):
    if len(argv) != 4 or argv[2] not in ("mini", "small", "quick", "thorough"):
        sys.stderr.write(__doc__)
        return 64
    selftest()
    n = write_vectors(int(argv[1]), argv[2], argv[3])
    sys.stderr.write("digest_vectors.py: %d inputs -> %s\n" % (n, argv[3]))
    return 0


if __name__ == "__main__":
    sys.exit(main(sys.argv))
